//! C04 — incremental builds produce exactly what a clean build produces.
//!
//! Engine E3: explicit-state BFS over edit/command histories on the real `veryl` binary.
//! A state is a complete sandbox snapshot (project incl. `.build`, with mtimes). Edit letters are
//! applied in memory; every command letter is executed twice from the same snapshot — once with
//! the existing fragment cache ("warm") and once on a twin whose `.build/cache` was removed
//! ("fresh cache") — and exit status, diagnostics and the output tree are compared. The warm
//! result is the successor state. States are deduplicated on a canonical key in which absolute
//! time stamps are replaced by the order relations veryl actually evaluates.

use crate::core::*;
use crate::fixture;
use crate::proj::{self, Sandbox, Snap};
use rayon::prelude::*;
use serde_json::{Value, json};
use std::collections::{BTreeMap, BTreeSet, HashSet};
use std::sync::Mutex;
use std::time::{Duration, SystemTime, UNIX_EPOCH};

#[derive(Clone, Debug, PartialEq, Eq, Hash, PartialOrd, Ord)]
pub enum Edit {
    Set(String, String),    // file, variant: new content, mtime = now
    OldSet(String, String), // file, variant: content with a preserved old mtime (cp -p / tar / rsync -t)
    Touch(String),
    Remove(String),
    Rename(String, String),
    TomlStrip,
    TomlBundle,
    /// external: delete one emitted output file
    RmOutput(String),
}

impl Edit {
    pub fn text(&self) -> String {
        match self {
            Edit::Set(f, v) => format!("set {f} {v}"),
            Edit::OldSet(f, v) => format!("old {f} {v}"),
            Edit::Touch(f) => format!("touch {f}"),
            Edit::Remove(f) => format!("rm {f}"),
            Edit::Rename(a, b) => format!("mv {a} {b}"),
            Edit::TomlStrip => "toml strip_comments".into(),
            Edit::TomlBundle => "toml bundle".into(),
            Edit::RmOutput(f) => format!("rmout {f}"),
        }
    }
    pub fn parse(s: &str) -> Option<Edit> {
        let w: Vec<&str> = s.split_whitespace().collect();
        Some(match w.as_slice() {
            ["set", f, v] => Edit::Set(f.to_string(), v.to_string()),
            ["old", f, v] => Edit::OldSet(f.to_string(), v.to_string()),
            ["touch", f] => Edit::Touch(f.to_string()),
            ["rm", f] => Edit::Remove(f.to_string()),
            ["mv", a, b] => Edit::Rename(a.to_string(), b.to_string()),
            ["toml", "strip_comments"] => Edit::TomlStrip,
            ["toml", "bundle"] => Edit::TomlBundle,
            ["rmout", f] => Edit::RmOutput(f.to_string()),
            _ => return None,
        })
    }
    fn file(&self) -> String {
        match self {
            Edit::Set(f, _) | Edit::OldSet(f, _) | Edit::Touch(f) | Edit::Remove(f) | Edit::Rename(f, _) | Edit::RmOutput(f) => f.clone(),
            Edit::TomlStrip | Edit::TomlBundle => "Veryl.toml".into(),
        }
    }
}

pub fn old_time() -> SystemTime {
    UNIX_EPOCH + Duration::from_secs(1_000_000_000)
}

/// Applies an edit to an in-memory snapshot. Returns false if the edit is a no-op / not enabled.
pub fn apply_edit(s: &mut Snap, e: &Edit) -> bool {
    let key = |f: &str| format!("p/{f}");
    match e {
        Edit::Set(f, v) => {
            let c = fixture::content(f, v).into_bytes();
            if s.files.get(&key(f)).map(|x| &x.0) == Some(&c) {
                return false; // same content: that is `touch`
            }
            s.files.insert(key(f), (c, SystemTime::now()));
            true
        }
        Edit::OldSet(f, v) => {
            let c = fixture::content(f, v).into_bytes();
            if s.files.get(&key(f)).map(|x| &x.0) == Some(&c) {
                return false;
            }
            s.files.insert(key(f), (c, old_time()));
            true
        }
        Edit::Touch(f) => match s.files.get_mut(&key(f)) {
            Some(x) => {
                x.1 = SystemTime::now();
                true
            }
            None => false,
        },
        Edit::Remove(f) => s.files.remove(&key(f)).is_some(),
        Edit::Rename(a, b) => {
            if s.files.contains_key(&key(b)) {
                return false;
            }
            match s.files.remove(&key(a)) {
                Some(x) => {
                    s.files.insert(key(b), x); // rename keeps the mtime
                    true
                }
                None => false,
            }
        }
        Edit::TomlStrip | Edit::TomlBundle => {
            let cur = String::from_utf8_lossy(&s.files.get("p/Veryl.toml").map(|x| x.0.clone()).unwrap_or_default()).to_string();
            let strip = cur.contains("strip_comments = true");
            let bundle = cur.contains("type = \"bundle\"");
            let map = !cur.contains("sourcemap_target = {type = \"none\"}");
            let (strip, bundle) = match e {
                Edit::TomlStrip => (!strip, bundle),
                _ => (strip, !bundle),
            };
            s.files.insert(
                "p/Veryl.toml".into(),
                (fixture::toml(strip, bundle, map).into_bytes(), SystemTime::now()),
            );
            true
        }
        Edit::RmOutput(f) => s.files.remove(&key(f)).is_some(),
    }
}

#[derive(Clone, Debug, PartialEq, Eq)]
pub struct Obs {
    pub exit: i32,
    pub panicked: bool,
    pub diags: Vec<String>,
    pub outputs: BTreeMap<String, String>,
}

pub fn obs_json(o: &Obs) -> Value {
    json!({"exit": o.exit, "panicked": o.panicked, "diagnostics": o.diags, "outputs": o.outputs})
}

pub fn command_args(cmd: &str) -> Vec<&str> {
    cmd.split_whitespace().collect()
}

/// Runs `cmd` in the sandbox (already restored) and observes.
pub fn run_and_observe(sb: &Sandbox, cmd: &str) -> Obs {
    let out = sb.veryl(&command_args(cmd));
    Obs {
        exit: out.code,
        panicked: out.panicked(),
        diags: proj::diag_blocks(&out.stderr),
        outputs: proj::output_tree(&sb.proj(), &["src/", "examples/", "Veryl.toml"]),
    }
}

/// Canonical state key (see module doc and DESIGN.md Appendix D).
pub fn state_key(s: &Snap) -> [u8; 32] {
    let mut h = blake3::Hasher::new();
    let mut stamps: BTreeMap<String, f64> = BTreeMap::new();
    if let Some((data, _)) = s.files.get("p/.build/info.toml") {
        if let Ok(v) = toml::from_str::<toml::Value>(&String::from_utf8_lossy(data)) {
            if let Some(g) = v.get("generated_files").and_then(|x| x.as_table()) {
                for (k, t) in g {
                    let secs = t.get("secs_since_epoch").and_then(|x| x.as_integer()).unwrap_or(0) as f64;
                    let nanos = t.get("nanos_since_epoch").and_then(|x| x.as_integer()).unwrap_or(0) as f64;
                    stamps.insert(k.clone(), secs + nanos * 1e-9);
                }
            }
            // everything in info.toml except the absolute stamps
            let mut v2 = v.clone();
            if let Some(t) = v2.as_table_mut() {
                t.remove("generated_files");
            }
            h.update(toml::to_string(&v2).unwrap_or_default().as_bytes());
        } else {
            h.update(b"info.toml:unparsable:");
            h.update(data);
        }
    }
    for (rel, (data, mt)) in &s.files {
        if rel.ends_with("/lock") || rel == "p/.build/info.toml" || !rel.starts_with("p/") {
            continue;
        }
        h.update(rel.as_bytes());
        h.update(&[0]);
        h.update(blake3::hash(data).as_bytes());
        if rel.ends_with(".veryl") {
            // the only use of a source mtime: `mtime > generated[dst]`
            let m = proj::systime_secs(*mt);
            for (g, st) in &stamps {
                if m > *st {
                    h.update(b"newer-than:");
                    h.update(g.as_bytes());
                }
            }
        }
    }
    for g in stamps.keys() {
        h.update(b"gen:");
        h.update(g.as_bytes());
    }
    *h.finalize().as_bytes()
}

pub struct Node {
    pub snap: Snap,
    pub hist: Vec<String>,
}

pub struct RoundSpec {
    pub max_edits: usize,
    pub edits: Vec<Edit>,
    pub commands: Vec<&'static str>,
}

fn edit_alphabet(files: &[&str], variants: &[&str], old_variants: &[&str], extras: bool) -> Vec<Edit> {
    let mut v = vec![];
    for f in files {
        for var in variants {
            v.push(Edit::Set(f.to_string(), var.to_string()));
        }
        for var in old_variants {
            v.push(Edit::OldSet(f.to_string(), var.to_string()));
        }
        v.push(Edit::Touch(f.to_string()));
        v.push(Edit::Remove(f.to_string()));
    }
    v.push(Edit::TomlStrip);
    if extras {
        v.push(Edit::Rename("src/a.veryl".into(), "src/a_renamed.veryl".into()));
        v.push(Edit::TomlBundle);
        v.push(Edit::RmOutput("target/src/a.sv".into()));
        v.push(Edit::RmOutput("map/src/a.sv.map".into()));
        v.push(Edit::RmOutput("prj.f".into()));
    }
    v
}

/// All edit combinations of size 0..=max on distinct files.
fn edit_combos(edits: &[Edit], max: usize) -> Vec<Vec<Edit>> {
    let mut out = vec![vec![]];
    let mut level: Vec<Vec<usize>> = vec![vec![]];
    for _ in 0..max {
        let mut next = vec![];
        for c in &level {
            let start = c.last().map(|x| x + 1).unwrap_or(0);
            for i in start..edits.len() {
                if c.iter().any(|j| edits[*j].file() == edits[i].file()) {
                    continue;
                }
                let mut n = c.clone();
                n.push(i);
                next.push(n);
            }
        }
        for c in &next {
            out.push(c.iter().map(|i| edits[*i].clone()).collect());
        }
        level = next;
    }
    out
}

pub fn base_project(sb: &Sandbox, with_example: bool, sourcemap: bool) {
    sb.write("Veryl.toml", &fixture::toml(false, false, sourcemap));
    for f in fixture::FILES {
        if !with_example && f.starts_with("examples/") {
            continue;
        }
        sb.write(f, &fixture::content(f, "v0"));
    }
}

fn diff_field(a: &Obs, b: &Obs) -> &'static str {
    if a.panicked != b.panicked || a.panicked {
        "panic"
    } else if a.exit != b.exit {
        "exit"
    } else if a.diags != b.diags {
        "diagnostics"
    } else {
        "outputs"
    }
}

/// Root-cause classes with a precise recogniser (everything else keeps a per-history signature).
///
/// `failing-run-replays-cached-warnings`: both runs fail with the same exit status and identical
/// outputs, every diagnostic of the fresh-cache run is also in the warm run, and the warm run's
/// extra diagnostics are all warnings. (The pipeline appends the cached warnings of restored files
/// before the pass that aborts the run; the fresh-cache run aborts before pass 2 produces them.)
pub fn classify(warm: &Obs, cold: &Obs) -> Option<&'static str> {
    if warm.panicked || cold.panicked {
        return None;
    }
    if warm.exit == cold.exit && warm.exit != 0 && warm.outputs == cold.outputs && warm.diags != cold.diags {
        let mut extra = warm.diags.clone();
        for d in &cold.diags {
            match extra.iter().position(|x| x == d) {
                Some(i) => {
                    extra.remove(i);
                }
                None => return None, // the fresh-cache run reports something the warm run lacks
            }
        }
        let has_error = |v: &Vec<String>| v.iter().any(|d| d.starts_with("Error:"));
        if !extra.is_empty() && extra.iter().all(|d| d.starts_with("Warning:")) && has_error(&cold.diags) {
            // each extra warning at most once (a duplicated replay is a different defect)
            let mut e2 = extra.clone();
            e2.dedup();
            if e2.len() == extra.len() && extra.iter().all(|d| !cold.diags.contains(d)) {
                return Some("failing-run-replays-cached-warnings");
            }
        }
    }
    None
}

struct TransitionResult {
    successor: Option<(Snap, [u8; 32])>,
    violation: Option<Violation>,
    restored_some: bool,
    reanalysed_some: bool,
    warm_exit: i32,
}

fn do_transition(sb: &Sandbox, state: &Snap, edits: &[Edit], cmd: &str, hist: &[String]) -> Option<TransitionResult> {
    let mut s = state.clone();
    for e in edits {
        if !apply_edit(&mut s, e) {
            return None; // not enabled in this state
        }
    }
    let mut h: Vec<String> = hist.to_vec();
    h.extend(edits.iter().map(|e| e.text()));
    h.push(format!("cmd {cmd}"));

    // warm
    proj::restore(&sb.root, &s);
    let out = sb.veryl(&command_args(cmd));
    let warm = Obs {
        exit: out.code,
        panicked: out.panicked(),
        diags: proj::diag_blocks(&out.stderr),
        outputs: proj::output_tree(&sb.proj(), &["src/", "examples/", "Veryl.toml"]),
    };
    let restored = out
        .stderr
        .lines()
        .find_map(|l| l.split("Restored ").nth(1).map(|x| x.to_string()))
        .and_then(|x| {
            let mut it = x.split(|c: char| !c.is_ascii_digit()).filter(|t| !t.is_empty());
            Some((it.next()?.parse::<u32>().ok()?, it.next()?.parse::<u32>().ok()?))
        });
    let succ = proj::snapshot(&sb.root);

    let mut violation = None;
    if cmd != "clean" {
        // twin: same state, fresh cache
        proj::restore(&sb.root, &s);
        let _ = std::fs::remove_dir_all(sb.proj().join(".build/cache"));
        let cold = run_and_observe(sb, cmd);
        if warm != cold {
            let field = diff_field(&warm, &cold);
            let since_cmd: Vec<String> = edits.iter().map(|e| e.text()).collect();
            let prev_cmd = hist.iter().rev().find(|x| x.starts_with("cmd ")).cloned().unwrap_or_else(|| "cmd -".into());
            let signature = match classify(&warm, &cold) {
                Some(class) => format!("C04:{class}"),
                None => format!("C04:{}:{}:[{}]:after-{}", cmd.replace(' ', "_"), field, since_cmd.join(","), prev_cmd.replace(' ', "_")),
            };
            violation = Some(Violation {
                signature,
                what: format!("`veryl {cmd}` with the existing fragment cache differs from the same command on a fresh cache in {field}"),
                case: json!({"engine":"E3","history": h}),
                expected: obs_json(&cold),
                observed: obs_json(&warm),
            });
        }
    }
    let key = state_key(&succ);
    Some(TransitionResult {
        successor: Some((succ, key)),
        violation,
        restored_some: restored.map(|(r, _)| r > 0).unwrap_or(false),
        reanalysed_some: restored.map(|(r, n)| r < n).unwrap_or(false),
        warm_exit: warm.exit,
    })
}

pub fn run(ctx: &Ctx) -> Report {
    let mut rep = Report::new(Level::ModelChecking);
    if let Err(e) = proj::ensure_canon() {
        rep.machinery(e);
        return rep;
    }
    let budget = ctx.budget(52.0, 2400.0);
    let nthreads = rayon::current_num_threads().max(1);
    let sandboxes: Vec<Sandbox> = (0..nthreads + 1).map(|i| Sandbox::new(&ctx.scratch.join(format!("w{i}")))).collect();

    // base states
    let sb0 = &sandboxes[nthreads];
    base_project(sb0, ctx.thorough(), true);
    let fresh = proj::snapshot(&sb0.root);
    let out = sb0.veryl(&["build"]);
    if out.code != 0 {
        rep.machinery(format!("base project does not build on this tree: exit {} stderr {}", out.code, out.stderr));
        return rep;
    }
    let built = proj::snapshot(&sb0.root);

    let (files, rounds): (Vec<&str>, Vec<RoundSpec>) = if ctx.thorough() {
        let files = vec!["src/pkg.veryl", "src/a.veryl", "src/b.veryl", "src/t.veryl", "examples/ex.veryl", "src/c.veryl"];
        let mut e_full = edit_alphabet(&files, &fixture::VARIANTS, &["v0", "v1"], true);
        e_full.push(Edit::Set("src/pkg.veryl".into(), "iface".into()));
        let mut e_small = edit_alphabet(&[files[0], files[1], files[2], files[5]], &["v0", "v1", "warn", "err_sem"], &["v0"], true);
        e_small.push(Edit::Set("src/pkg.veryl".into(), "iface".into()));
        (
            files.clone(),
            vec![
                RoundSpec { max_edits: 2, edits: e_full.clone(), commands: vec!["build", "check", "build --check", "test --backend cranelift", "clean"] },
                RoundSpec { max_edits: 1, edits: e_full, commands: vec!["build", "check", "build --check", "clean"] },
                RoundSpec { max_edits: 1, edits: e_small, commands: vec!["build", "check"] },
            ],
        )
    } else {
        let files = vec!["src/pkg.veryl", "src/a.veryl", "src/b.veryl", "src/c.veryl"];
        let mut e1 = edit_alphabet(&files, &["v0", "v1", "warn", "err_sem"], &["v0"], false);
        e1.push(Edit::Set("src/pkg.veryl".into(), "iface".into()));
        // round 2 is a targeted alphabet that a quick run can complete from every round-1 state:
        // the dependency-sensitive letters (package constant / package interface / module body
        // changes, a new dependent file, a removed file, a touch, a Veryl.toml flip)
        let e2 = vec![
            Edit::Set("src/pkg.veryl".into(), "iface".into()),
            Edit::Set("src/pkg.veryl".into(), "v1".into()),
            Edit::Set("src/c.veryl".into(), "v0".into()),
            Edit::Set("src/a.veryl".into(), "v1".into()),
            Edit::Remove("src/a.veryl".into()),
            Edit::Touch("src/pkg.veryl".into()),
            Edit::TomlStrip,
        ];
        (
            files.clone(),
            vec![
                RoundSpec { max_edits: 1, edits: e1, commands: vec!["build", "check"] },
                RoundSpec { max_edits: 1, edits: e2, commands: vec!["build", "check", "build --check"] },
            ],
        )
    };
    let _ = files;

    let seen: Mutex<HashSet<[u8; 32]>> = Mutex::new(HashSet::new());
    let mut frontier: Vec<Node> = vec![Node { snap: built.clone(), hist: vec!["<clean build of v0>".into()] }];
    seen.lock().unwrap().insert(state_key(&built));
    if ctx.thorough() {
        frontier.push(Node { snap: fresh.clone(), hist: vec!["<fresh project, never built>".into()] });
        seen.lock().unwrap().insert(state_key(&fresh));
    }

    let mut states = frontier.len() as u64;
    let mut transitions = 0u64;
    let mut nontrivial = 0u64;
    let mut rounds_completed = 0usize;
    let mut capped = false;
    let mut exits: BTreeSet<i32> = BTreeSet::new();
    let mut sig_seen: HashSet<String> = HashSet::new();

    for (ri, round) in rounds.iter().enumerate() {
        let combos = edit_combos(&round.edits, round.max_edits);
        // task list, simplest first
        let mut tasks: Vec<(usize, &Vec<Edit>, &str)> = vec![];
        if ri == 0 {
            for (ni, _) in frontier.iter().enumerate() {
                for c in &combos {
                    for cmd in &round.commands {
                        tasks.push((ni, c, cmd));
                    }
                }
            }
        } else {
            // later rounds: letter-major, so that a budget cut removes whole letters from the end of
            // the (priority-ordered) alphabet instead of whole start states
            for c in &combos {
                for (ni, _) in frontier.iter().enumerate() {
                    for cmd in &round.commands {
                        tasks.push((ni, c, cmd));
                    }
                }
            }
        }
        if ctx.seed != 0 {
            // seed only changes shard order
            let n = tasks.len();
            tasks.rotate_left((ctx.seed as usize) % n.max(1));
        }
        let deadline_hit = std::sync::atomic::AtomicBool::new(false);
        let results: Vec<Option<(usize, TransitionResult, Vec<String>)>> = tasks
            .par_iter()
            .map(|(ni, edits, cmd)| {
                if ctx.elapsed() > budget {
                    deadline_hit.store(true, std::sync::atomic::Ordering::Relaxed);
                    return None;
                }
                let idx = rayon::current_thread_index().unwrap_or(0);
                let node = &frontier[*ni];
                let r = do_transition(&sandboxes[idx], &node.snap, edits, cmd, &node.hist)?;
                let mut h = node.hist.clone();
                h.extend(edits.iter().map(|e| e.text()));
                h.push(format!("cmd {cmd}"));
                Some((*ni, r, h))
            })
            .collect();
        let mut next: Vec<Node> = vec![];
        for r in results.into_iter().flatten() {
            let (_ni, tr, h) = r;
            transitions += 1;
            exits.insert(tr.warm_exit);
            if tr.restored_some && tr.reanalysed_some {
                nontrivial += 1;
            }
            if let Some(v) = tr.violation {
                // a failing run saves nothing, so the state behind this recognised class is sound to
                // build on; any other violation ends the branch
                let benign = v.signature == "C04:failing-run-replays-cached-warnings";
                if sig_seen.insert(v.signature.clone()) || benign {
                    rep.violation(v);
                }
                if !benign {
                    continue; // do not build on a state reached through a violation
                }
            }
            if let Some((snap, key)) = tr.successor {
                if seen.lock().unwrap().insert(key) {
                    states += 1;
                    if states <= 4 || states % 97 == 0 {
                        rep.sample(json!({"history": h}));
                    }
                    next.push(Node { snap, hist: h });
                }
            }
        }
        if deadline_hit.load(std::sync::atomic::Ordering::Relaxed) {
            capped = true;
            rep.notes.push(format!("round {} stopped by the time budget ({}s); earlier rounds are complete", ri + 1, budget));
            break;
        }
        rounds_completed = ri + 1;
        // states with more source files first: they have the most dependency edges, so a budget
        // cut in the next round keeps the dependency-rich states (stable: discovery order otherwise)
        next.sort_by_key(|n| std::cmp::Reverse(n.snap.files.keys().filter(|k| k.ends_with(".veryl")).count()));
        frontier = next;
        if frontier.is_empty() {
            break;
        }
    }

    rep.set("states", states);
    rep.set("transitions", transitions);
    rep.set("traces_validated_against_impl", transitions);
    rep.set("rounds_requested", rounds.len() as u64);
    rep.set("rounds_completed", rounds_completed as u64);
    rep.set("capped_by_budget", capped);
    rep.set("exhaustive", !capped);
    rep.set("transitions_with_restore_and_reanalysis", nontrivial);
    rep.set("distinct_exit_codes", exits.len() as u64);
    rep.set(
        "rule",
        "rounds of (<= max_edits edits on distinct files, then one command) from the built base state; each command runs warm and on a twin with .build/cache removed; exit status, diagnostic blocks (multiset) and every file outside .build and the sources are compared; successor = warm result, deduplicated on a time-abstracted canonical key",
    );
    rep.assume("diagnostics are compared as the multiset of rendered miette blocks on stderr (file, line:col, code, message, snippet)");
    rep.assume("edit letters set mtimes from CLOCK_REALTIME (new) or to 2001 (preserved old mtime); no future-dated files");
    if nontrivial == 0 {
        rep.machinery("vacuity guard: no transition both restored and re-analysed files");
    }
    if exits.len() < 2 {
        rep.machinery("vacuity guard: only one distinct exit status observed");
    }
    rep
}

pub fn replay(doc: &Value) -> i32 {
    let Some(hist) = doc["case"]["history"].as_array() else {
        eprintln!("no history");
        return 2;
    };
    let ctx = Ctx::new("C04-replay", Tier::Quick);
    let sb = Sandbox::new(&ctx.scratch.join("w"));
    let with_example = hist.iter().any(|x| x.as_str().unwrap_or("").contains("examples/")) || doc["tier"] == "thorough";
    base_project(&sb, with_example, true);
    let mut last: Option<(Obs, Obs)> = None;
    for (i, l) in hist.iter().enumerate() {
        let l = l.as_str().unwrap_or("");
        if l.starts_with('<') {
            if l.contains("clean build") {
                sb.veryl(&["build"]);
            }
            continue;
        }
        if let Some(cmd) = l.strip_prefix("cmd ") {
            let s = proj::snapshot(&sb.root);
            let is_last = i + 1 == hist.len();
            if is_last && cmd != "clean" {
                let warm = run_and_observe(&sb, cmd);
                let succ = proj::snapshot(&sb.root);
                proj::restore(&sb.root, &s);
                let _ = std::fs::remove_dir_all(sb.proj().join(".build/cache"));
                let cold = run_and_observe(&sb, cmd);
                proj::restore(&sb.root, &succ);
                last = Some((warm, cold));
            } else {
                sb.veryl(&command_args(cmd));
            }
        } else if let Some(e) = Edit::parse(l) {
            let mut s = proj::snapshot(&sb.root);
            apply_edit(&mut s, &e);
            proj::restore(&sb.root, &s);
        } else {
            eprintln!("cannot parse history letter {l}");
            return 2;
        }
    }
    match last {
        Some((w, c)) if w != c => {
            println!("still differs in {}\nfresh-cache: {}\nwarm: {}", diff_field(&w, &c), obs_json(&c), obs_json(&w));
            1
        }
        Some(_) => {
            println!("warm and fresh-cache runs agree");
            0
        }
        None => 2,
    }
}

//! Subprocess worker plumbing shared by C10 (parser robustness) and C11 (pipeline robustness).
//!
//! A *worker* is this same executable started as `vmc worker <kind> <in.json> <out.txt>`. It
//! handles a batch of input texts, each on a fresh thread with the CLI's main-thread stack size
//! (8 MiB), and appends one result line per finished input (`<index>\t<json>\n`, one `write`
//! each, so the file is exact up to the instant the process dies). A watchdog thread ends the
//! process with exit code 97 after writing `<index>\tT` when one input exceeds the wall cap.
//!
//! The parent (`run_all`) shards a lazily generated family into batches over all cores. When a
//! worker dies (stack overflow => SIGABRT/SIGSEGV, abort, OOM) the culprit is the first index
//! without a result line; it is recorded as `Res::Died`, and the rest of the batch continues in
//! a new worker. Every death is then re-run *alone* in a fresh worker: only a death that
//! reproduces on the single input is reported (`confirmed_alone`); otherwise the batch prefix is
//! bisected (`bisect_death`) so a state-dependent crash is still pinned to a minimal input list.

use crate::core::*;
use serde_json::{Value, json};
use std::io::Write;
use std::path::{Path, PathBuf};
use std::sync::atomic::{AtomicU64, AtomicUsize, Ordering};
use std::sync::{Arc, Mutex};
use std::time::{Duration, Instant};

/// Stack of the CLI's main thread (`ulimit -s` default 8 MiB). The language server uses 16 MiB.
pub const CLI_STACK: usize = 8 * 1024 * 1024;

#[derive(Clone, Debug)]
pub enum Res {
    /// The worker finished this input; the JSON holds the facts it observed.
    Done(Value),
    /// The worker process died while handling this input.
    Died {
        signal: Option<i32>,
        code: Option<i32>,
        stack_overflow: bool,
        stderr_tail: String,
        /// Reproduced when the input was run alone in a fresh worker.
        confirmed_alone: bool,
    },
    /// The watchdog stopped the worker: this input exceeded the wall cap.
    Timeout { cap_s: f64, confirmed_alone: bool },
}

#[derive(Clone)]
pub struct Cfg {
    pub kind: &'static str,
    pub cap_s: f64,
    pub stack: usize,
    /// inputs per worker process
    pub batch: usize,
    /// start a new thread for every input (thread-local analyzer state) instead of reusing one
    pub fresh_thread: bool,
    /// extra options handed to the worker (`opts` in the batch file)
    pub opts: Value,
    /// address-space limit of the worker process in bytes (0 = none)
    pub mem_limit: u64,
}

static SEQ: AtomicUsize = AtomicUsize::new(0);

struct RunOut {
    lines: Vec<(usize, String)>,
    signal: Option<i32>,
    code: Option<i32>,
    stderr: String,
}

fn run_worker(dir: &Path, cfg: &Cfg, inputs: &[&str]) -> RunOut {
    let n = SEQ.fetch_add(1, Ordering::Relaxed);
    let inp = dir.join(format!("b{n}.in.json"));
    let outp = dir.join(format!("b{n}.out.txt"));
    let errp = dir.join(format!("b{n}.err.txt"));
    let doc = json!({"cap_s": cfg.cap_s, "stack": cfg.stack, "fresh_thread": cfg.fresh_thread, "mem_limit": cfg.mem_limit, "opts": cfg.opts, "inputs": inputs});
    std::fs::write(&inp, serde_json::to_vec(&doc).unwrap()).expect("write batch");
    let _ = std::fs::remove_file(&outp);
    let errf = std::fs::File::create(&errp).expect("stderr file");
    let exe = std::env::current_exe().expect("current_exe");
    let home = dir.join("home");
    let _ = std::fs::create_dir_all(&home);
    let status = std::process::Command::new(exe)
        .arg("worker")
        .arg(cfg.kind)
        .arg(&inp)
        .arg(&outp)
        .env("HOME", &home)
        .env("XDG_CACHE_HOME", home.join(".cache"))
        .env("RUST_BACKTRACE", "0")
        // allocator tuning only (one arena, grow the heap in large steps): a non-main glibc arena
        // grows page by page with one mprotect each, which dominates the run time under load
        .env("MALLOC_ARENA_MAX", "1")
        .env("MALLOC_TOP_PAD_", "33554432")
        .stdin(std::process::Stdio::null())
        .stdout(std::process::Stdio::null())
        .stderr(errf)
        .status();
    let (signal, code) = match status {
        Ok(s) => {
            use std::os::unix::process::ExitStatusExt;
            (s.signal(), s.code())
        }
        Err(_) => (None, Some(-1)),
    };
    let text = std::fs::read_to_string(&outp).unwrap_or_default();
    let mut lines = vec![];
    for l in text.lines() {
        if let Some((i, rest)) = l.split_once('\t') {
            if let Ok(i) = i.parse::<usize>() {
                lines.push((i, rest.to_string()));
            }
        }
    }
    let stderr = std::fs::read_to_string(&errp).unwrap_or_default();
    let _ = std::fs::remove_file(&inp);
    let _ = std::fs::remove_file(&outp);
    let _ = std::fs::remove_file(&errp);
    RunOut { lines, signal, code, stderr }
}

fn tail(s: &str, n: usize) -> String {
    let t: Vec<&str> = s.lines().rev().take(n).collect();
    let mut t: Vec<&str> = t.into_iter().rev().collect();
    if t.is_empty() {
        t.push("");
    }
    let j = t.join("\n");
    if j.len() > 600 {
        let mut cut = j.len() - 600;
        while !j.is_char_boundary(cut) {
            cut += 1;
        }
        j[cut..].to_string()
    } else {
        j
    }
}

/// Runs one batch to completion, restarting after each death. Results in input order.
pub fn run_batch(dir: &Path, cfg: &Cfg, inputs: &[&str]) -> Vec<Res> {
    let mut out: Vec<Option<Res>> = vec![None; inputs.len()];
    let mut base = 0usize;
    while base < inputs.len() {
        let r = run_worker(dir, cfg, &inputs[base..]);
        let mut next = base; // first index without a result
        let mut timed_out = false;
        for (i, rest) in &r.lines {
            let gi = base + *i;
            if gi >= inputs.len() {
                continue;
            }
            if rest == "T" {
                out[gi] = Some(Res::Timeout { cap_s: cfg.cap_s, confirmed_alone: false });
                timed_out = true;
                next = gi + 1;
            } else if let Ok(v) = serde_json::from_str::<Value>(rest) {
                out[gi] = Some(Res::Done(v));
                next = gi + 1;
            }
        }
        if next >= inputs.len() {
            break;
        }
        if !timed_out {
            let so = r.stderr.contains("overflowed its stack") || r.stderr.contains("stack overflow");
            out[next] = Some(Res::Died {
                signal: r.signal,
                code: r.code,
                stack_overflow: so,
                stderr_tail: tail(&r.stderr, 6),
                confirmed_alone: false,
            });
            next += 1;
        }
        base = next;
    }
    // confirm deaths/timeouts alone
    for i in 0..inputs.len() {
        let need = matches!(out[i], Some(Res::Died { .. }) | Some(Res::Timeout { .. }));
        if !need {
            continue;
        }
        let r = run_worker(dir, cfg, &inputs[i..=i]);
        let finished = r.lines.iter().any(|(k, rest)| *k == 0 && rest != "T");
        match out[i].as_mut().unwrap() {
            Res::Died { confirmed_alone, .. } => *confirmed_alone = !finished,
            Res::Timeout { confirmed_alone, .. } => *confirmed_alone = !finished,
            _ => {}
        }
    }
    out.into_iter()
        .map(|x| x.unwrap_or(Res::Done(json!({"o":"missing"}))))
        .collect()
}

/// For a death that does not reproduce alone: the shortest prefix-suffix `inputs[lo..=i]` that
/// still kills a fresh worker (linear-bisection on the start index). None if even the whole
/// prefix does not reproduce (flaky => machinery problem, e.g. OOM killer).
pub fn bisect_death(dir: &Path, cfg: &Cfg, inputs: &[&str], i: usize) -> Option<usize> {
    let dies = |lo: usize| -> bool {
        let r = run_worker(dir, cfg, &inputs[lo..=i]);
        !r.lines.iter().any(|(k, rest)| *k == i - lo && rest != "T")
    };
    if !dies(0) {
        return None;
    }
    let (mut lo, mut hi) = (0usize, i); // dies(lo) true; find the largest lo that still dies
    while lo < hi {
        let mid = (lo + hi + 1) / 2;
        if dies(mid) {
            lo = mid;
        } else {
            hi = mid - 1;
        }
    }
    Some(lo)
}

/// Shards `n` lazily generated inputs into batches over all cores and feeds every result to
/// `sink(index, input, result)` (called under a lock, in unspecified order). Stops scheduling new
/// batches once `deadline()` is true; returns the set of fully processed index ranges as a
/// count (batches are scheduled in index order, so with a cap the covered part is a union of
/// whole batches; the count is exact).
pub fn run_all(
    dir: &Path,
    cfg: &Cfg,
    n: usize,
    generate: &(dyn Fn(usize) -> String + Sync),
    sink: &(dyn Fn(usize, &str, &Res) + Sync),
    stop: &(dyn Fn() -> bool + Sync),
) -> usize {
    use rayon::prelude::*;
    let batch = cfg.batch.max(1);
    let nb = n.div_ceil(batch);
    let done = AtomicUsize::new(0);
    let lock = Mutex::new(());
    // Batches are handed out strictly in index order (an atomic cursor), so that with a budget
    // cap the covered part is a prefix of the family (simplest-first / deepest-first orders of
    // the callers are honoured); rayon only provides the threads.
    let cursor = AtomicUsize::new(0);
    let threads = rayon::current_num_threads().max(1);
    (0..threads).into_par_iter().for_each(|_| loop {
        if stop() {
            return;
        }
        let b = cursor.fetch_add(1, Ordering::SeqCst);
        if b >= nb {
            return;
        }
        let lo = b * batch;
        let hi = ((b + 1) * batch).min(n);
        let texts: Vec<String> = (lo..hi).map(|i| generate(i)).collect();
        let refs: Vec<&str> = texts.iter().map(|s| s.as_str()).collect();
        let res = run_batch(dir, cfg, &refs);
        // state-dependent deaths: bisect to a minimal run of inputs
        let mut res = res;
        for k in 0..res.len() {
            if let Res::Died { confirmed_alone: false, stderr_tail, .. } = &mut res[k] {
                match bisect_death(dir, cfg, &refs, k) {
                    Some(start) => {
                        stderr_tail.push_str(&format!(
                            "\n[not reproducible alone; reproduces with the {} preceding inputs of the batch]",
                            k - start
                        ));
                    }
                    None => stderr_tail.push_str("\n[not reproducible: flaky death]"),
                }
            }
        }
        let _g = lock.lock().unwrap();
        for (k, r) in res.iter().enumerate() {
            sink(lo + k, &texts[k], r);
        }
        done.fetch_add(hi - lo, Ordering::Relaxed);
    });
    done.load(Ordering::Relaxed)
}

// ------------------------------------------------------------------------------------ worker side

struct Watch {
    start_ms: AtomicU64, // 0 = idle, else ms since `t0` + 1
    idx: AtomicUsize,
}

/// Generic worker loop: `f(input, opts)` runs on a fresh thread with `stack` bytes and returns
/// the observed facts; a panic escaping `f` is reported as {"o":"panic", loc, msg}.
pub fn worker_loop(
    in_path: &str,
    out_path: &str,
    f: fn(&str, &Value) -> Value,
) -> i32 {
    let Ok(text) = std::fs::read_to_string(in_path) else {
        eprintln!("worker: cannot read {in_path}");
        return 2;
    };
    let Ok(doc) = serde_json::from_str::<Value>(&text) else {
        eprintln!("worker: cannot parse {in_path}");
        return 2;
    };
    let cap_s = doc["cap_s"].as_f64().unwrap_or(30.0);
    let mem_limit = doc["mem_limit"].as_u64().unwrap_or(0);
    if mem_limit > 0 {
        let lim = libc::rlimit { rlim_cur: mem_limit, rlim_max: mem_limit };
        unsafe { libc::setrlimit(libc::RLIMIT_AS, &lim) };
    }
    let stack = doc["stack"].as_u64().unwrap_or(CLI_STACK as u64) as usize;
    let opts = Arc::new(doc["opts"].clone());
    let inputs: Vec<String> = doc["inputs"]
        .as_array()
        .map(|a| a.iter().map(|x| x.as_str().unwrap_or("").to_string()).collect())
        .unwrap_or_default();
    let out = Arc::new(Mutex::new(
        std::fs::OpenOptions::new()
            .create(true)
            .append(true)
            .open(out_path)
            .expect("open out"),
    ));
    install_quiet_panic_hook();
    let t0 = Instant::now();
    let watch = Arc::new(Watch { start_ms: AtomicU64::new(0), idx: AtomicUsize::new(0) });
    {
        let watch = watch.clone();
        let out = out.clone();
        std::thread::spawn(move || {
            loop {
                std::thread::sleep(Duration::from_millis(50));
                let s = watch.start_ms.load(Ordering::SeqCst);
                if s == 0 {
                    continue;
                }
                let now = t0.elapsed().as_millis() as u64 + 1;
                if now.saturating_sub(s) as f64 / 1000.0 > cap_s {
                    let i = watch.idx.load(Ordering::SeqCst);
                    // the lock may be held by a writer that finished in the meantime: re-check
                    if let Ok(mut f) = out.lock() {
                        if watch.start_ms.load(Ordering::SeqCst) == s {
                            let _ = f.write_all(format!("{i}\tT\n").as_bytes());
                            unsafe { libc::_exit(97) };
                        }
                    }
                }
            }
        });
    }
    // One long-lived worker thread handles consecutive inputs (a fresh thread per input costs
    // milliseconds of page faults in a new malloc arena); it is replaced by a new thread after a
    // panic (thread-local state may be poisoned) or, with `fresh_thread`, after every input
    // (analyzer state is thread-local and must start empty for every analysis).
    let fresh = doc["fresh_thread"].as_bool().unwrap_or(false);
    let inputs = Arc::new(inputs);
    let mut next = 0usize;
    while next < inputs.len() {
        let from = next;
        let inputs2 = inputs.clone();
        let opts = opts.clone();
        let watch2 = watch.clone();
        let out2 = out.clone();
        let h = std::thread::Builder::new().stack_size(stack).spawn(move || -> usize {
            let mut i = from;
            while i < inputs2.len() {
                watch2.idx.store(i, Ordering::SeqCst);
                watch2.start_ms.store(t0.elapsed().as_millis() as u64 + 1, Ordering::SeqCst);
                let input: &str = &inputs2[i];
                let r = std::panic::catch_unwind(std::panic::AssertUnwindSafe(|| f(input, &opts)));
                let (v, panicked) = match r {
                    Ok(v) => (v, false),
                    Err(p) => {
                        let loc = take_panic_loc().unwrap_or_else(|| "?".into());
                        (json!({"o":"panic","loc":loc,"msg":clip(&panic_message(p), 300)}), true)
                    }
                };
                let line = format!("{i}\t{}\n", serde_json::to_string(&v).unwrap());
                {
                    let mut g = out2.lock().unwrap();
                    watch2.start_ms.store(0, Ordering::SeqCst);
                    let _ = g.write_all(line.as_bytes());
                }
                i += 1;
                if panicked || fresh {
                    break;
                }
            }
            i
        });
        match h {
            Ok(h) => match h.join() {
                Ok(n) => next = n.max(from + 1),
                Err(p) => {
                    // a panic outside catch_unwind (e.g. in a thread-local destructor)
                    let i = watch.idx.load(Ordering::SeqCst);
                    let v = json!({"o":"panic","loc":take_panic_loc().unwrap_or_else(|| "thread exit".into()),"msg":clip(&panic_message(p), 300)});
                    let mut g = out.lock().unwrap();
                    watch.start_ms.store(0, Ordering::SeqCst);
                    let _ = g.write_all(format!("{i}\t{}\n", serde_json::to_string(&v).unwrap()).as_bytes());
                    next = i + 1;
                }
            },
            Err(e) => {
                eprintln!("worker: cannot spawn thread: {e}");
                return 2;
            }
        }
    }
    0
}

pub fn clip(s: &str, n: usize) -> String {
    let mut t: String = s.chars().take(n).collect();
    if t.len() < s.len() {
        t.push('…');
    }
    t.replace('\n', " ")
}

/// Strips the absolute prefix of a panic location so that the signature is stable across
/// checkouts: `/x/y/crates/analyzer/src/a.rs:10` -> `crates/analyzer/src/a.rs:10`; registry
/// crates -> `<crate-version>/src/...`.
pub fn norm_loc(loc: &str) -> String {
    if let Some(p) = loc.find("/crates/") {
        return stable_loc(&loc[p + 1..]);
    }
    if let Some(p) = loc.find("/registry/src/") {
        let rest = &loc[p + "/registry/src/".len()..];
        if let Some(q) = rest.find('/') {
            return rest[q + 1..].to_string();
        }
    }
    loc.to_string()
}

pub fn scratch_for(ctx: &Ctx, name: &str) -> PathBuf {
    ctx.dir(name)
}


/// `crates/x/src/y.rs:123` -> `crates/x/src/y.rs:fn enclosing_function`. Line numbers shift with
/// every unrelated edit of the file, which would turn a listed finding into a "new" violation; the
/// enclosing function (nearest preceding `fn name` in the repository source) is stable.
pub fn stable_loc(rel: &str) -> String {
    let Some((file, line)) = rel.rsplit_once(':') else { return rel.to_string() };
    let Ok(line) = line.trim().parse::<usize>() else { return rel.to_string() };
    let Ok(text) = std::fs::read_to_string(crate::core::repo_root().join(file)) else { return rel.to_string() };
    let lines: Vec<&str> = text.lines().collect();
    let mut i = line.min(lines.len());
    while i > 0 {
        i -= 1;
        let l = lines[i].trim_start();
        if l.starts_with("//") {
            continue;
        }
        if let Some(p) = l.find("fn ") {
            let before_ok = p == 0 || !l.as_bytes()[p - 1].is_ascii_alphanumeric() && l.as_bytes()[p - 1] != b'_';
            let name: String = l[p + 3..].chars().take_while(|c| c.is_ascii_alphanumeric() || *c == '_').collect();
            if before_ok && !name.is_empty() {
                return format!("{file}:fn {name}");
            }
        }
    }
    rel.to_string()
}

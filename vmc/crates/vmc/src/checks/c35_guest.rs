//! Hand-written guest side of the component C ABI (`veryl-component-sys` only) for the *static*
//! transport of C35. Same component set and behaviour as `crates/comp_fixture` (which is written
//! against the `veryl-component` guest library and loaded with dlopen), but it talks to the host
//! exclusively through the copying services `read_input` / `write_output` / `param_get`, i.e. the
//! path a non-memory-sharing transport uses.

use std::ffi::c_void;
use veryl_component_sys as sys;

#[derive(Clone, Copy, PartialEq, Eq)]
enum Kind {
    VMirror,
    WMirror,
    UMirror,
    Observer,
    ParamProbe,
    Echo,
}

#[derive(Clone, Copy, Default)]
struct Port {
    idx: u32,
    width: u32,
}

struct Inst {
    api: *const sys::VrlHostApi,
    kind: Kind,
    d: Port,
    q: Port,
    obs: [Port; 8],
    param: Vec<u64>,
    stored: Vec<u64>,
    stored_width: u32,
}

fn nwords(width: u32) -> usize {
    (width as usize).div_ceil(64).max(1)
}

unsafe fn port(ctx: *mut sys::VrlCtx, api: &sys::VrlHostApi, name: &str, dir: u32) -> Option<Port> {
    let idx = unsafe { (api.port_index)(ctx, sys::VrlStr::from_str(name), dir) };
    if idx < 0 {
        return None;
    }
    let width = unsafe { (api.port_width)(ctx, idx as u32) };
    Some(Port { idx: idx as u32, width })
}

unsafe fn fail(ctx: *mut sys::VrlCtx, api: &sys::VrlHostApi, msg: &str) {
    unsafe { (api.fail)(ctx, sys::VrlStr::from_str(msg)) };
}

unsafe fn create(ctx: *mut sys::VrlCtx, api: *const sys::VrlHostApi, kind: Kind) -> *mut c_void {
    let a = unsafe { &*api };
    let mut inst = Inst { api, kind, d: Port::default(), q: Port::default(), obs: [Port::default(); 8], param: vec![], stored: vec![0], stored_width: 1 };
    macro_rules! need {
        ($e:expr, $what:expr) => {
            match $e {
                Some(p) => p,
                None => {
                    unsafe { fail(ctx, a, $what) };
                    return std::ptr::null_mut();
                }
            }
        };
    }
    unsafe {
        match kind {
            Kind::VMirror | Kind::WMirror | Kind::UMirror => {
                need!(port(ctx, a, "clk", sys::VRL_DIR_CLOCK), "no clock port `clk`");
                inst.d = need!(port(ctx, a, "d", sys::VRL_DIR_INPUT), "no input port `d`");
                inst.q = need!(port(ctx, a, "q", sys::VRL_DIR_OUTPUT), "no output port `q`");
            }
            Kind::Observer => {
                need!(port(ctx, a, "clk", sys::VRL_DIR_CLOCK), "no clock port `clk`");
                inst.d = need!(port(ctx, a, "d", sys::VRL_DIR_INPUT), "no input port `d`");
                for (i, n) in ["ones", "xs", "zs", "width", "top", "b63", "b64", "four"].iter().enumerate() {
                    inst.obs[i] = need!(port(ctx, a, n, sys::VRL_DIR_OUTPUT), "missing observer output");
                }
            }
            Kind::ParamProbe => {
                need!(port(ctx, a, "clk", sys::VRL_DIR_CLOCK), "no clock port `clk`");
                inst.q = need!(port(ctx, a, "out", sys::VRL_DIR_OUTPUT), "no output port `out`");
                let mut v = sys::VrlValue::unit();
                if (a.param_get)(ctx, sys::VrlStr::from_str("V"), &mut v) != 0 || v.kind != sys::VRL_VALUE_BITS {
                    fail(ctx, a, "no bits parameter `V`");
                    return std::ptr::null_mut();
                }
                inst.param = if v.nwords == 0 || v.words.is_null() { vec![] } else { std::slice::from_raw_parts(v.words, v.nwords).to_vec() };
            }
            Kind::Echo => {}
        }
    }
    Box::into_raw(Box::new(inst)) as *mut c_void
}

unsafe fn write_small(ctx: *mut sys::VrlCtx, a: &sys::VrlHostApi, p: Port, v: u64) {
    let n = nwords(p.width);
    let mut w = vec![0u64; n];
    w[0] = if p.width >= 64 { v } else { v & ((1u64 << p.width) - 1) };
    unsafe { (a.write_output)(ctx, p.idx, w.as_ptr(), std::ptr::null()) };
}

fn bit_code(words: &[u64], mask: &[u64], i: u32, width: u32) -> u64 {
    if i >= width {
        return 0;
    }
    let w = (i / 64) as usize;
    let b = i % 64;
    (((mask[w] >> b) & 1) << 1) | ((words[w] >> b) & 1)
}

unsafe extern "C" fn on_clock(state: *mut c_void, ctx: *mut sys::VrlCtx) -> i32 {
    let inst = unsafe { &mut *(state as *mut Inst) };
    let a = unsafe { &*inst.api };
    unsafe {
        match inst.kind {
            Kind::VMirror => {
                let n = nwords(inst.d.width);
                let mut w = vec![0u64; n];
                let mut m = vec![0u64; n];
                (a.read_input)(ctx, inst.d.idx, w.as_mut_ptr(), m.as_mut_ptr());
                let no = nwords(inst.q.width);
                w.resize(no, 0);
                m.resize(no, 0);
                (a.write_output)(ctx, inst.q.idx, w.as_ptr(), m.as_ptr());
            }
            Kind::WMirror | Kind::UMirror => {
                let n = nwords(inst.d.width);
                let mut w = vec![0u64; n];
                (a.read_input)(ctx, inst.d.idx, w.as_mut_ptr(), std::ptr::null_mut());
                w.resize(nwords(inst.q.width), 0);
                (a.write_output)(ctx, inst.q.idx, w.as_ptr(), std::ptr::null());
            }
            Kind::Observer => {
                let n = nwords(inst.d.width);
                let mut w = vec![0u64; n];
                let mut m = vec![0u64; n];
                (a.read_input)(ctx, inst.d.idx, w.as_mut_ptr(), m.as_mut_ptr());
                let (mut ones, mut xs, mut zs) = (0u64, 0u64, 0u64);
                for (x, y) in w.iter().zip(m.iter()) {
                    ones += (x & !y).count_ones() as u64;
                    xs += (y & !x).count_ones() as u64;
                    zs += (y & x).count_ones() as u64;
                }
                let width = inst.d.width;
                let vals = [
                    ones,
                    xs,
                    zs,
                    width as u64,
                    bit_code(&w, &m, width.saturating_sub(1), width),
                    bit_code(&w, &m, 63, width),
                    bit_code(&w, &m, 64, width),
                    ((a.is_4state)(ctx) != 0) as u64,
                ];
                for (p, v) in inst.obs.iter().zip(vals.iter()) {
                    write_small(ctx, a, *p, *v);
                }
            }
            Kind::ParamProbe => {
                let mut w = inst.param.clone();
                w.resize(nwords(inst.q.width), 0);
                (a.write_output)(ctx, inst.q.idx, w.as_ptr(), std::ptr::null());
            }
            Kind::Echo => return 1,
        }
    }
    0
}

unsafe extern "C" fn on_init(state: *mut c_void, ctx: *mut sys::VrlCtx) -> i32 {
    let inst = unsafe { &mut *(state as *mut Inst) };
    if inst.kind == Kind::ParamProbe {
        return unsafe { on_clock(state, ctx) };
    }
    0
}

unsafe extern "C" fn nop(_state: *mut c_void, _ctx: *mut sys::VrlCtx) -> i32 {
    0
}

unsafe extern "C" fn destroy(state: *mut c_void) {
    if !state.is_null() {
        drop(unsafe { Box::from_raw(state as *mut Inst) });
    }
}

unsafe extern "C" fn call_method(
    state: *mut c_void,
    ctx: *mut sys::VrlCtx,
    name: sys::VrlStr,
    args: *const sys::VrlValue,
    nargs: usize,
    ret: *mut sys::VrlValue,
) -> i32 {
    let inst = unsafe { &mut *(state as *mut Inst) };
    let a = unsafe { &*inst.api };
    let name = unsafe { name.as_str() };
    let ret = unsafe { &mut *ret };
    if inst.kind != Kind::Echo {
        unsafe { fail(ctx, a, "no methods") };
        return 1;
    }
    match name {
        "set" => {
            if nargs >= 1 {
                let v = unsafe { &*args };
                if v.kind == sys::VRL_VALUE_BITS && !v.words.is_null() {
                    inst.stored = unsafe { std::slice::from_raw_parts(v.words, v.nwords) }.to_vec();
                    inst.stored_width = v.width;
                }
            }
            ret.kind = sys::VRL_VALUE_UNIT;
            ret.width = 0;
            ret.nwords = 0;
            0
        }
        "get" => {
            if inst.stored.len() > ret.nwords {
                unsafe { fail(ctx, a, "return buffer too small") };
                return 1;
            }
            unsafe { std::ptr::copy_nonoverlapping(inst.stored.as_ptr(), ret.words as *mut u64, inst.stored.len()) };
            ret.kind = sys::VRL_VALUE_BITS;
            ret.width = inst.stored_width;
            ret.nwords = inst.stored.len();
            0
        }
        _ => {
            unsafe { fail(ctx, a, "unknown method") };
            1
        }
    }
}

macro_rules! creator {
    ($f:ident, $k:expr) => {
        unsafe extern "C" fn $f(ctx: *mut sys::VrlCtx, api: *const sys::VrlHostApi) -> *mut c_void {
            unsafe { create(ctx, api, $k) }
        }
    };
}
creator!(create_vmirror, Kind::VMirror);
creator!(create_wmirror, Kind::WMirror);
creator!(create_umirror, Kind::UMirror);
creator!(create_observer, Kind::Observer);
creator!(create_param, Kind::ParamProbe);
creator!(create_echo, Kind::Echo);

const fn vt(kind: u32, create: unsafe extern "C" fn(*mut sys::VrlCtx, *const sys::VrlHostApi) -> *mut c_void) -> sys::VrlComponentVTable {
    sys::VrlComponentVTable {
        abi_version: sys::VRL_COMPONENT_ABI_VERSION,
        kind,
        create,
        destroy,
        on_init,
        on_reset: nop,
        on_clock,
        call_method,
        on_finish: nop,
    }
}

pub static TABLE: [(&str, sys::VrlComponentVTable); 6] = [
    ("c35_vmirror", vt(sys::VRL_KIND_CLOCKED, create_vmirror)),
    ("c35_wmirror", vt(sys::VRL_KIND_CLOCKED, create_wmirror)),
    ("c35_umirror", vt(sys::VRL_KIND_CLOCKED, create_umirror)),
    ("c35_observer", vt(sys::VRL_KIND_CLOCKED, create_observer)),
    ("c35_param_probe", vt(sys::VRL_KIND_CLOCKED, create_param)),
    ("c35_echo", vt(sys::VRL_KIND_METHOD_ONLY, create_echo)),
];

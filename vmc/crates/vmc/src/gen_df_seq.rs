//! DF part: statements, sequential templates, structural templates and template pairs.

use super::{B, Design};

fn ff(target: &str, reset: &str, e: &str) -> String {
    format!(
        "always_ff {{\n    if_reset {{\n        {target} = {reset};\n    }} else {{\n        {target} = {e};\n    }}\n}}"
    )
}

fn indent(s: &str, n: usize) -> String {
    let pad = " ".repeat(n);
    s.lines().map(|l| format!("{pad}{l}")).collect::<Vec<_>>().join("\n")
}

// ------------------------------------------------------------------------------------------
// stmt: each statement body is instantiated once in always_comb (target `t`, pre-assigned) and
// once in always_ff (target register `t`, else-branch of if_reset).
// ------------------------------------------------------------------------------------------

/// Statement bodies writing the 3-bit variable `t` from a:2, b:2 (and, for `ff`, from `t` itself).
const STMT_BODIES: &[(&str, &str)] = &[
    ("if1", "if a[0] {\n    t = {1'b0, b};\n}"),
    ("if2", "if a == b {\n    t = 3'd1;\n} else if a >: b {\n    t = 3'd2;\n} else {\n    t = {a[0], b};\n}"),
    ("if3", "if a[1] {\n    if b[0] {\n        t = 3'd6;\n    } else {\n        t = 3'd3;\n    }\n} else if b[1] {\n    t = {b, a[0]};\n}"),
    ("case1", "case a {\n    0: t = 3'd1;\n    1: t = {1'b1, b};\n    2, 3: {\n        t = 3'd4;\n        t[0] = b[0];\n    }\n    default: t = 3'd7;\n}"),
    ("case2", "case {a, b} {\n    0..=2: t = 3'd5;\n    3..6: t = {b, 1'b0};\n    6, 8, 10: t = 3'd2;\n    12..=15: t = {a, b[1]};\n    default: t = 3'd0;\n}"),
    ("case3", "case b {\n    2'b00: t = 3'd1;\n    2'b01: t = 3'd2;\n    2'b10: t = 3'd4;\n    2'b11: t = {1'b0, a};\n}"),
    ("case4", "case a {\n    0: {\n        case b {\n            0: t = 3'd7;\n            default: t = 3'd1;\n        }\n    }\n    default: {\n        if b[1] {\n            t = {1'b1, a};\n        }\n    }\n}"),
    ("switch1", "switch {\n    a == 0: t = 3'd3;\n    b == 1, b == 3: t = 3'd5;\n    a <: b: {\n        t = 3'd6;\n        t[1] = a[0];\n    }\n    default: t = {a[1], b};\n}"),
    ("for1", "for i in 0..2 {\n    if a[i] {\n        t = t + 1;\n    }\n}"),
    ("for2", "for i in rev 0..2 {\n    t = {t[1:0], b[i] ^ a[i]};\n}"),
    ("for3", "for i in 0..4 step += 2 {\n    t[0] = t[0] ^ a[i / 2];\n    t[2:1] = t[2:1] + b;\n}"),
    ("for4", "for i in 1..5 step *= 2 {\n    if b == (i as 2) {\n        t = i as 3;\n    }\n}"),
    ("for5", "for i in 0..3 {\n    if a == (i as 2) {\n        break;\n    }\n    t = t + (b as 3);\n}"),
    ("for6", "for i in 0..2 {\n    for j in 0..=1 {\n        if a[i] && b[j] {\n            t = t + 1;\n        }\n    }\n}"),
    ("let1", "let u: logic<3> = {a, b[0]};\nvar w: logic<3>;\nw = u + (b as 3);\nt = w ^ u;"),
    ("cmpd1", "t += (a as 3);\nt -= (b as 3);\nt ^= 3'd5;"),
    ("cmpd2", "t |= {1'b0, a};\nt &= {1'b1, b};\nt <<= 1;\nt >>= a[0];"),
    ("cmpd3", "t *= (a as 3);\nt += 1;\nt /= ((b as 3) + 1);\nt %= 3'd5;"),
    ("multi1", "t = {1'b0, a};\nt = t + (b as 3);\nt = t ^ {t[0], t[2:1]};\nt[1] = a[1];"),
    ("multi2", "t[0] = a[0];\nt[1] = b[0] & t[0];\nt[2] = t[1] | a[1];"),
];

pub fn gen_stmt(out: &mut Vec<Design>) {
    for (i, (name, body)) in STMT_BODIES.iter().enumerate() {
        // comb version: pre-assign so that there is no latch
        out.push(
            B::new("stmt", format!("stmt/comb/{name}"))
                .core(i % 2 == 0)
                .inp("a", 2, false)
                .inp("b", 2, false)
                .out("y", 3, false)
                .out("q", 3, false)
                .l("var t: logic<3>;")
                .l(&format!("always_comb {{\n    t = 3'd0;\n{}\n}}", indent(body, 4)))
                .l("assign y = t;")
                .l(&ff("q", "0", "q + t"))
                .finish(),
        );
        // ff version: the body reads and writes the register itself
        out.push(
            B::new("stmt", format!("stmt/ff/{name}"))
                .core(i % 2 == 1)
                .inp("a", 2, false)
                .inp("b", 2, false)
                .out("y", 3, false)
                .l("var t: logic<3>;")
                .l(&format!(
                    "always_ff {{\n    if_reset {{\n        t = 3'd0;\n    }} else {{\n{}\n    }}\n}}",
                    indent(body, 8)
                ))
                .l("assign y = t;")
                .finish(),
        );
    }
    // signed compound assignment incl. arithmetic shifts
    out.push(
        B::new("stmt", "stmt/ff/cmpd_signed")
            .core(true)
            .inp("a", 2, true)
            .inp("b", 2, false)
            .out("y", 4, true)
            .l("var t: signed logic<4>;")
            .l("always_ff {\n    if_reset {\n        t = 4'sd3;\n    } else {\n        t += a;\n        t >>>= b[0];\n        t <<<= b[1];\n        t -= 4'sd1;\n    }\n}")
            .l("assign y = t;")
            .finish(),
    );
    out.push(
        B::new("stmt", "stmt/comb/cmpd_signed")
            .inp("a", 2, true)
            .inp("b", 2, false)
            .out("y", 4, true)
            .out("q", 4, true)
            .l("var t: signed logic<4>;")
            .l("always_comb {\n    t = -4'sd2;\n    t *= a;\n    t >>>= b;\n    t += a;\n}")
            .l("assign y = t;")
            .l(&ff("q", "0", "q - t"))
            .finish(),
    );
}

// ------------------------------------------------------------------------------------------
// seq
// ------------------------------------------------------------------------------------------

pub fn gen_seq(out: &mut Vec<Design>) {
    // counters
    for (i, (name, body)) in [
        ("up", "if a[0] {\n    c = c + 1;\n}"),
        ("updown", "if a[0] {\n    c = c + (b as 3);\n} else if a[1] {\n    c = c - 1;\n}"),
        ("sat", "if a[0] && c != 3'd7 {\n    c = c + 1;\n} else if a[1] && c != 3'd0 {\n    c = c - 1;\n}"),
        ("mod5", "if c >= 3'd4 {\n    c = 0;\n} else {\n    c = c + {2'b0, a[0] | b[0]};\n}"),
        ("load", "if a == 2'd3 {\n    c = {1'b0, b};\n} else {\n    c += 1;\n}"),
    ]
    .iter()
    .enumerate()
    {
        out.push(
            B::new("seq", format!("seq/counter/{name}"))
                .core(i % 2 == 0)
                .inp("a", 2, false)
                .inp("b", 2, false)
                .out("y", 3, false)
                .out("z", 1, false)
                .l("var c: logic<3>;")
                .l(&format!(
                    "always_ff {{\n    if_reset {{\n        c = 0;\n    }} else {{\n{}\n    }}\n}}",
                    indent(body, 8)
                ))
                .l("assign y = c;")
                .l("assign z = c == {1'b0, b};")
                .finish(),
        );
    }
    // enable FF with synchronous clear, two registers swapping (NBA semantics)
    out.push(
        B::new("seq", "seq/enff")
            .core(true)
            .inp("en", 1, false)
            .inp("clr", 1, false)
            .inp("d", 2, false)
            .out("q", 2, false)
            .out("p", 2, false)
            .l("always_ff {\n    if_reset {\n        q = 2'd2;\n    } else if clr {\n        q = 0;\n    } else if en {\n        q = d;\n    }\n}")
            .l("always_ff {\n    if_reset {\n        p = 0;\n    } else {\n        p = q;\n    }\n}")
            .finish(),
    );
    out.push(
        B::new("seq", "seq/swap")
            .core(true)
            .inp("a", 2, false)
            .inp("b", 2, false)
            .out("x", 2, false)
            .out("y", 2, false)
            .l("always_ff {\n    if_reset {\n        x = 2'd1;\n        y = 2'd2;\n    } else if a[0] {\n        x = y;\n        y = x;\n    } else {\n        x = x ^ b;\n        y = y + a;\n    }\n}")
            .finish(),
    );
    // shift registers
    out.push(
        B::new("seq", "seq/shift/lr")
            .core(true)
            .inp("d", 1, false)
            .inp("dir", 1, false)
            .inp("en", 1, false)
            .out("q", 4, false)
            .l("always_ff {\n    if_reset {\n        q = 4'b0001;\n    } else if en {\n        if dir {\n            q = {q[2:0], d};\n        } else {\n            q = {d, q[3:1]};\n        }\n    }\n}")
            .finish(),
    );
    out.push(
        B::new("seq", "seq/shift/gen")
            .inp("d", 1, false)
            .inp("en", 1, false)
            .out("q", 4, false)
            .l("for i in 0..4 :g {\n    always_ff {\n        if_reset {\n            q[i] = i % 2;\n        } else if en {\n            if i == 0 {\n                q[i] = d;\n            } else {\n                q[i] = q[i - 1];\n            }\n        }\n    }\n}")
            .finish(),
    );
    // register arrays
    out.push(
        B::new("seq", "seq/regarr/1x4")
            .core(true)
            .inp("a", 2, false)
            .inp("d", 1, false)
            .inp("we", 1, false)
            .out("r", 1, false)
            .out("all", 4, false)
            .l("var mem: logic [4];")
            .l("always_ff {\n    if_reset {\n        for i in 0..4 {\n            mem[i] = 0;\n        }\n    } else if we {\n        mem[a] = d;\n    }\n}")
            .l("assign r = mem[a];")
            .l("assign all = {mem[3], mem[2], mem[1], mem[0]};")
            .finish(),
    );
    out.push(
        B::new("seq", "seq/regarr/2x2")
            .inp("a", 1, false)
            .inp("d", 2, false)
            .inp("we", 1, false)
            .out("r", 2, false)
            .out("o", 2, false)
            .l("var mem: logic<2> [2];")
            .l("always_ff {\n    if_reset {\n        mem[0] = 2'd1;\n        mem[1] = 2'd2;\n    } else if we {\n        mem[a] = d + mem[~a];\n    }\n}")
            .l("assign r = mem[a];")
            .l("assign o = mem[0] ^ mem[1];")
            .finish(),
    );
    out.push(
        B::new("seq", "seq/regarr/packed")
            .inp("a", 1, false)
            .inp("d", 2, false)
            .inp("we", 1, false)
            .out("r", 2, false)
            .out("o", 4, false)
            .l("var mem: logic<2, 2>;")
            .l("always_ff {\n    if_reset {\n        mem = 4'b0110;\n    } else if we {\n        mem[a] = d;\n    } else {\n        mem[1][0] = d[1];\n    }\n}")
            .l("assign r = mem[a];")
            .l("assign o = mem;")
            .finish(),
    );
    // enum FSMs with the three encodings
    for (i, enc) in ["sequential", "onehot", "gray"].iter().enumerate() {
        out.push(
            B::new("seq", format!("seq/fsm/{enc}"))
                .core(i != 1)
                .inp("go", 1, false)
                .inp("stop", 1, false)
                .inp("d", 2, false)
                .out("busy", 1, false)
                .out("o", 2, false)
                .out("st", 4, false)
                .l(&format!("#[enum_encoding({enc})]\nenum State {{\n    Idle,\n    Run,\n    Wait,\n    Done,\n}}"))
                .l("var s: State;")
                .l("var acc: logic<2>;")
                .l("always_ff {\n    if_reset {\n        s = State::Idle;\n        acc = 0;\n    } else {\n        case s {\n            State::Idle: if go {\n                s = State::Run;\n                acc = d;\n            }\n            State::Run: {\n                acc = acc + d;\n                if stop {\n                    s = State::Wait;\n                }\n            }\n            State::Wait: if !go {\n                s = State::Done;\n            }\n            default: s = State::Idle;\n        }\n    }\n}")
                .l("assign busy = s == State::Run || s == State::Wait;")
                .l("assign o = if s == State::Done ? acc : 2'd0;")
                .l("assign st = s as 4;")
                .finish(),
        );
    }
    // explicit clock / reset kinds
    for (i, (ck, rs)) in [
        ("clock_posedge", "reset_async_high"),
        ("clock_posedge", "reset_async_low"),
        ("clock_negedge", "reset_sync_high"),
        ("clock", "reset_sync_low"),
        ("clock_negedge", "reset"),
    ]
    .iter()
    .enumerate()
    {
        out.push(
            B::new("seq", format!("seq/kinds/{ck}/{rs}"))
                .core(i < 2)
                .clk_ty(ck)
                .rst_ty(rs)
                .inp("a", 2, false)
                .inp("b", 2, false)
                .out("q", 3, false)
                .out("y", 3, false)
                .l("always_ff (clk, rst) {\n    if_reset {\n        q = 3'd5;\n    } else {\n        q = q + {1'b0, a} - {2'b0, b[0]};\n    }\n}")
                .l("assign y = q ^ {b, a[1]};")
                .finish(),
        );
    }
    // a register without reset feeding a reset one (X in the 4-state engine until loaded)
    out.push(
        B::new("seq", "seq/noreset")
            .tag("xz")
            .inp("a", 2, false)
            .inp("b", 2, false)
            .out("p", 2, false)
            .out("q", 2, false)
            .l("always_ff {\n    p = a ^ b;\n}")
            .l("always_ff {\n    if_reset {\n        q = 0;\n    } else if b[0] {\n        q = p;\n    }\n}")
            .finish(),
    );
}

// ------------------------------------------------------------------------------------------
// struct(ural) templates
// ------------------------------------------------------------------------------------------

pub fn gen_struct(out: &mut Vec<Design>) {
    // functions
    out.push(
        B::new("struct", "struct/func/ret")
            .core(true)
            .inp("a", 2, false)
            .inp("b", 2, false)
            .out("y", 3, false)
            .out("q", 3, false)
            .l("function add3 (\n    x: input logic<2>,\n    y: input logic<2>,\n) -> logic<3> {\n    return {1'b0, x} + {1'b0, y} + 3'd1;\n}")
            .l("function twice (\n    x: input logic<3>,\n) -> logic<3> {\n    return add3(x[1:0], x[2:1]) ^ x;\n}")
            .l("assign y = twice(add3(a, b));")
            .l(&ff("q", "0", "add3(q[1:0], a) + twice({b, a[0]})"))
            .finish(),
    );
    out.push(
        B::new("struct", "struct/func/outarg")
            .inp("a", 2, false)
            .inp("b", 2, false)
            .out("y", 2, false)
            .out("z", 2, false)
            .out("q", 2, false)
            .l("function split (\n    x: input logic<2>,\n    w: input logic<2>,\n    lo: output logic<2>,\n) -> logic<2> {\n    lo = x & w;\n    return x | w;\n}")
            .l("var t: logic<2>;")
            .l("always_comb {\n    y = split(a, b, t);\n    z = t;\n}")
            .l(&ff("q", "0", "q + t"))
            .finish(),
    );
    out.push(
        B::new("struct", "struct/func/loop")
            .core(true)
            .inp("a", 2, false)
            .inp("b", 2, false)
            .out("y", 3, false)
            .out("q", 3, false)
            .l("function popcnt (\n    x: input logic<4>,\n) -> logic<3> {\n    var n: logic<3>;\n    n = 0;\n    for i in 0..4 {\n        if x[i] {\n            n = n + 1;\n        }\n    }\n    return n;\n}")
            .l("assign y = popcnt({a, b});")
            .l(&ff("q", "0", "q ^ popcnt({b, q[1:0]})"))
            .finish(),
    );
    // struct / union
    out.push(
        B::new("struct", "struct/struct/fields")
            .core(true)
            .inp("a", 2, false)
            .inp("b", 2, false)
            .out("y", 5, false)
            .out("f", 2, false)
            .out("q", 5, false)
            .l("struct S {\n    hi: logic<2>,\n    fl: logic,\n    lo: logic<2>,\n}")
            .l("var s: S;")
            .l("always_comb {\n    s.hi = a;\n    s.fl = a[0] ^ b[0];\n    s.lo = b;\n}")
            .l("assign y = s;")
            .l("assign f = s.hi + s.lo;")
            .l("var r: S;")
            .l("always_ff {\n    if_reset {\n        r = 0;\n    } else {\n        r.lo = s.hi;\n        r.hi = r.lo ^ b;\n        r.fl = s.fl & r.hi[0];\n    }\n}")
            .l("assign q = r;")
            .finish(),
    );
    out.push(
        B::new("struct", "struct/struct/ctor")
            .inp("a", 2, false)
            .inp("b", 2, false)
            .out("y", 4, false)
            .out("q", 4, false)
            .l("struct P {\n    x: logic<2>,\n    y: logic<2>,\n}")
            .l("let p: P = P'{x: a, y: b + 1};")
            .l("assign y = p;")
            .l("var r: P;")
            .l("always_ff {\n    if_reset {\n        r = P'{x: 2'd1, ..default(0)};\n    } else {\n        r = P'{x: p.y, y: r.x};\n    }\n}")
            .l("assign q = {r.y, r.x};")
            .finish(),
    );
    out.push(
        B::new("struct", "struct/union")
            .core(true)
            .inp("a", 2, false)
            .inp("b", 2, false)
            .out("y", 4, false)
            .out("h", 2, false)
            .out("q", 4, false)
            .l("struct H {\n    hi: logic<2>,\n    lo: logic<2>,\n}")
            .l("union U {\n    raw: logic<4>,\n    h: H,\n}")
            .l("var u: U;")
            .l("assign u.raw = {a, b} + 4'd3;")
            .l("assign y = u.raw;")
            .l("assign h = u.h.hi ^ u.h.lo;")
            .l("var r: U;")
            .l("always_ff {\n    if_reset {\n        r.raw = 0;\n    } else if a[0] {\n        r.h.hi = b;\n    } else {\n        r.raw = r.raw + 1;\n    }\n}")
            .l("assign q = r.raw;")
            .finish(),
    );
    // enum values and casts
    out.push(
        B::new("struct", "struct/enum")
            .inp("a", 2, false)
            .inp("b", 2, false)
            .out("y", 2, false)
            .out("z", 1, false)
            .out("q", 2, false)
            .l("enum E: logic<2> {\n    A = 2'd1,\n    B = 2'd3,\n    C = 2'd0,\n    D = 2'd2,\n}")
            .l("var e: E;")
            .l("assign e = a as E;")
            .l("assign y = case e {\n    E::A: b,\n    E::B: ~b,\n    E::C: 2'd2,\n    default: 2'd1,\n};")
            .l("assign z = e == E::B;")
            .l("var r: E;")
            .l("always_ff {\n    if_reset {\n        r = E::C;\n    } else if b[0] {\n        r = e;\n    }\n}")
            .l("assign q = r;")
            .finish(),
    );
    // arrays, array literals, const/param
    out.push(
        B::new("struct", "struct/array/lit")
            .core(true)
            .inp("a", 2, false)
            .inp("b", 2, false)
            .out("y", 3, false)
            .out("z", 3, false)
            .out("q", 3, false)
            .l("const K: u32 = 3;")
            .l("const TAB: logic<3> [4] = '{3'd5, 3'd1, 3'd7, 3'd2};")
            .l("var arr: logic<3> [4];")
            .l("always_comb {\n    for i in 0..4 {\n        arr[i] = TAB[i] + (b as 3) + (i as 3);\n    }\n}")
            .l("assign y = arr[a];")
            .l("assign z = TAB[b] + K;")
            .l(&ff("q", "0", "q + arr[b] + TAB[a]"))
            .finish(),
    );
    out.push(
        B::new("struct", "struct/array/packed2d")
            .inp("a", 2, false)
            .inp("b", 2, false)
            .out("y", 2, false)
            .out("z", 1, false)
            .out("w", 6, false)
            .l("var m: logic<3, 2>;")
            .l("always_comb {\n    m[0] = a;\n    m[1] = b;\n    m[2] = a ^ b;\n}")
            .l("assign y = m[b[0] + a[0]];")
            .l("assign z = m[a[0]][b[0]];")
            .l("assign w = m;")
            .finish(),
    );
    // generate for / if
    out.push(
        B::new("struct", "struct/gen/for")
            .core(true)
            .inp("a", 2, false)
            .inp("b", 2, false)
            .out("y", 4, false)
            .out("q", 4, false)
            .l("const N: u32 = 4;")
            .l("var t: logic<4>;")
            .l("for i in 0..N :g {\n    if i % 2 == 0 :even {\n        assign t[i] = a[i / 2] ^ b[0];\n    } else :odd {\n        assign t[i] = b[i / 2] & a[1];\n    }\n}")
            .l("assign y = t;")
            .l("for i in rev 0..N :h {\n    always_ff {\n        if_reset {\n            q[i] = 0;\n        } else {\n            q[i] = t[N - 1 - i] ^ q[(i + 1) % N];\n        }\n    }\n}")
            .finish(),
    );
    // sub-module instances: parameter override, positional/named ports, unconnected output
    let sub = "module Sub #(\n    param W: u32 = 2,\n    param K: u32 = 1,\n) (\n    clk: input clock,\n    rst: input reset,\n    x: input logic<W>,\n    y: output logic<W>,\n    r: output logic<W>,\n) {\n    assign y = x + K;\n    always_ff {\n        if_reset {\n            r = 0;\n        } else {\n            r = r + x + K;\n        }\n    }\n}\n";
    out.push(
        B::new("struct", "struct/inst/params")
            .core(true)
            .pre(sub)
            .inp("a", 2, false)
            .inp("b", 2, false)
            .out("y0", 2, false)
            .out("y1", 3, false)
            .out("r0", 2, false)
            .out("r1", 3, false)
            .l("inst u0: Sub (\n    clk,\n    rst,\n    x: a,\n    y: y0,\n    r: r0,\n);")
            .l("inst u1: Sub #(\n    W: 3,\n    K: 5,\n) (\n    clk,\n    rst,\n    x: {b, a[0]},\n    y: y1,\n    r: r1,\n);")
            .finish(),
    );
    out.push(
        B::new("struct", "struct/inst/chain")
            .pre(sub)
            .inp("a", 2, false)
            .inp("b", 2, false)
            .out("y", 2, false)
            .out("r", 2, false)
            .l("var m: logic<2>;")
            .l("var rr: logic<2>;")
            .l("inst u0: Sub #(\n    K: 2,\n) (\n    clk,\n    rst,\n    x: a ^ b,\n    y: m,\n    r: rr,\n);")
            .l("inst u1: Sub (\n    clk,\n    rst,\n    x: m + rr,\n    y,\n    r,\n);")
            .finish(),
    );
    out.push(
        B::new("struct", "struct/inst/genarr")
            .pre(sub)
            .inp("a", 2, false)
            .inp("b", 2, false)
            .out("y", 4, false)
            .out("r", 4, false)
            .l("for i in 0..2 :g {\n    inst u: Sub #(\n        K: i + 1,\n    ) (\n        clk,\n        rst,\n        x: if i == 0 ? a : b,\n        y: y[2 * i+:2],\n        r: r[2 * i+:2],\n    );\n}")
            .finish(),
    );
    // interface + modports inside a top
    let intf = "interface Bus {\n    var data: logic<2>;\n    var valid: logic;\n    var ack: logic;\n    function both () -> logic {\n        return valid & ack;\n    }\n    modport master {\n        data: output,\n        valid: output,\n        ack: input,\n    }\n    modport slave {\n        data: input,\n        valid: input,\n        ack: output,\n        both: import,\n    }\n}\nmodule Prod (\n    clk: input clock,\n    rst: input reset,\n    d: input logic<2>,\n    go: input logic,\n    bus: modport Bus::master,\n    seen: output logic,\n) {\n    assign bus.data = d;\n    assign bus.valid = go;\n    always_ff {\n        if_reset {\n            seen = 0;\n        } else if bus.ack {\n            seen = ~seen;\n        }\n    }\n}\nmodule Cons (\n    clk: input clock,\n    rst: input reset,\n    rdy: input logic,\n    bus: modport Bus::slave,\n    acc: output logic<2>,\n    hs: output logic,\n) {\n    assign bus.ack = rdy & bus.valid;\n    assign hs = bus.both();\n    always_ff {\n        if_reset {\n            acc = 0;\n        } else if bus.valid && rdy {\n            acc = acc + bus.data;\n        }\n    }\n}\n";
    out.push(
        B::new("struct", "struct/intf/modport")
            .core(true)
            .pre(intf)
            .inp("d", 2, false)
            .inp("go", 1, false)
            .inp("rdy", 1, false)
            .out("acc", 2, false)
            .out("hs", 1, false)
            .out("seen", 1, false)
            .out("mon", 2, false)
            .l("inst bus: Bus;")
            .l("inst p: Prod (\n    clk,\n    rst,\n    d,\n    go,\n    bus,\n    seen,\n);")
            .l("inst c: Cons (\n    clk,\n    rst,\n    rdy,\n    bus,\n    acc,\n    hs,\n);")
            .l("assign mon = if bus.valid ? bus.data : 2'd0;")
            .finish(),
    );
    // package: const, function, struct, import
    let pkg = "package Pk {\n    const OFF: logic<3> = 3'd3;\n    struct Pair {\n        x: logic<2>,\n        y: logic<2>,\n    }\n    function mix (\n        p: input Pair,\n    ) -> logic<3> {\n        return {1'b0, p.x} + {1'b0, p.y} + OFF;\n    }\n}\n";
    out.push(
        B::new("struct", "struct/package")
            .core(true)
            .pre(pkg)
            .inp("a", 2, false)
            .inp("b", 2, false)
            .out("y", 3, false)
            .out("q", 3, false)
            .l("import Pk::*;")
            .l("var p: Pair;")
            .l("assign p.x = a;")
            .l("assign p.y = b;")
            .l("assign y = mix(p);")
            .l(&ff("q", "Pk::OFF", "q ^ Pk::mix(p)"))
            .finish(),
    );
}

// ------------------------------------------------------------------------------------------
// pairs: block A feeds block B.  Each block maps (i0: logic<2>, i1: logic<2>) -> o: logic<2>.
// ------------------------------------------------------------------------------------------

/// (name, is_sequential, text with placeholders $P (unique prefix), $I0, $I1, $O)
const BLOCKS: &[(&str, bool, &str)] = &[
    ("add", false, "assign $O = $I0 + $I1;"),
    ("mulx", false, "assign $O = ($I0 * $I1) ^ $I0;"),
    ("mux", false, "assign $O = if $I0[0] ? $I1 : ~$I1;"),
    ("cmp", false, "assign $O = {$I0 >: $I1, $I0 == $I1};"),
    ("shift", false, "assign $O = $I0 << $I1[0] | $I1 >> $I0[1];"),
    ("sel", false, "var $Pv: logic<4>;\nassign $Pv = {$I0, $I1};\nassign $O = $Pv[$I1+:2];"),
    ("casec", false, "always_comb {\n    case $I0 {\n        0: $O = $I1;\n        1: $O = $I1 + 1;\n        2: $O = 2'd3;\n        default: $O = ~$I1;\n    }\n}"),
    ("forc", false, "always_comb {\n    $O = 0;\n    for i in 0..2 {\n        if $I0[i] {\n            $O = $O + $I1;\n        }\n    }\n}"),
    ("multi", false, "always_comb {\n    $O = $I0;\n    $O = $O ^ $I1;\n    $O = $O + {$O[0], $O[1]};\n}"),
    ("func", false, "function $Pf (\n    x: input logic<2>,\n    y: input logic<2>,\n) -> logic<2> {\n    return (x & y) + 2'd1;\n}\nassign $O = $Pf($I0, $I1);"),
    ("reg", true, "always_ff {\n    if_reset {\n        $O = 0;\n    } else {\n        $O = $I0 ^ $I1;\n    }\n}"),
    ("acc", true, "always_ff {\n    if_reset {\n        $O = 2'd1;\n    } else if $I0[0] {\n        $O = $O + $I1;\n    }\n}"),
    ("cnt", true, "always_ff {\n    if_reset {\n        $O = 0;\n    } else if $I0 == $I1 {\n        $O = $O + 1;\n    } else if $I0[1] {\n        $O = 0;\n    }\n}"),
    ("sreg", true, "always_ff {\n    if_reset {\n        $O = 2'd2;\n    } else {\n        $O = {$O[0], $I0[0] ^ $I1[1]};\n    }\n}"),
    ("arr", true, "var $Pm: logic<2> [2];\nalways_ff {\n    if_reset {\n        $Pm[0] = 0;\n        $Pm[1] = 2'd3;\n    } else {\n        $Pm[$I0[0]] = $I1;\n    }\n}\nassign $O = $Pm[$I0[1]];"),
];

fn block_text(t: &str, p: &str, i0: &str, i1: &str, o: &str) -> String {
    t.replace("$P", p).replace("$I0", i0).replace("$I1", i1).replace("$O", o)
}

pub fn gen_pairs(out: &mut Vec<Design>) {
    for (ia, (na, _sa, ta)) in BLOCKS.iter().enumerate() {
        for (ib, (nb, _sb, tb)) in BLOCKS.iter().enumerate() {
            let core = (ia * 7 + ib * 3) % 11 == 0;
            out.push(
                B::new("pair", format!("pair/{na}-{nb}"))
                    .core(core)
                    .inp("a", 2, false)
                    .inp("b", 2, false)
                    .out("m", 2, false)
                    .out("y", 2, false)
                    .l(&block_text(ta, "p0", "a", "b", "m"))
                    .l(&block_text(tb, "p1", "m", "b", "y"))
                    .finish(),
            );
        }
    }
}

//! E5 — schedule explorer over REAL processes at system-call granularity (ptrace).
//!
//! A controller spawns N participants (the real `veryl` / `veryl-ls` binaries) under ptrace,
//! stops each of them at every system-call entry, decodes the call and classifies it as a
//! *visible operation* when it touches a path below the shared scratch root (`proj::CANON`).
//! Only one participant is released at a time, so an execution is a total order of visible
//! operations and a *schedule* (list of participant ids, one per decision) replays it.
//! `flock` is modelled in the controller: a participant about to enter a blocking flock on a
//! file another participant holds is disabled until the release (LOCK_UN, close, exit).
//! No enabled participant while some are alive = deadlock.
//!
//! Exploration: deviation-bounded DFS (iterative preemption bounding) with a partial-order
//! reduction computed from each participant's solo trace plus the history of the current run:
//! an operation is a *scheduling point* only if it conflicts (same path, at least one write /
//! create / rename / unlink / lock) with something another participant does.
//!
//! Engine API (used by checks/c30.rs):
//!   * `PartSpec`                     — what to run (program, args, cwd below CANON, env)
//!   * `run_schedule(&RunCfg)`        — one controlled execution → `RunResult`
//!   * `footprint_of(&RunResult, i)`  — footprint of participant i (from a solo run)
//!   * `explore(&ExploreCfg, eval)`   — bounded DFS over schedules, parallel, → `ExploreOut`
//!   * `partial_reads(&RunResult)`    — direct oracle: reads of files with a write in progress

#![allow(dead_code)]

use crate::proj::CANON;
use std::collections::{BTreeMap, BTreeSet, HashMap};
use std::ffi::CString;
use std::hash::{Hash, Hasher};
use std::os::unix::process::CommandExt;
use std::path::{Path, PathBuf};
use std::process::{Command, Stdio};
use std::sync::atomic::{AtomicBool, AtomicU64, Ordering};
use std::sync::{Arc, Mutex, OnceLock};
use std::time::{Duration, Instant};

// ------------------------------------------------------------------------------------------
// participants and operations
// ------------------------------------------------------------------------------------------

#[derive(Clone, Debug)]
pub struct PartSpec {
    pub name: String,
    pub program: PathBuf,
    pub args: Vec<String>,
    /// working directory relative to CANON (e.g. "p")
    pub cwd_rel: String,
    pub env: Vec<(String, String)>,
    /// file (harness path) connected to stdin; None = /dev/null
    pub stdin: Option<PathBuf>,
    /// interactive stdin (language server): steps executed by a feeder thread that watches the
    /// participant's stdout file; takes precedence over `stdin`
    pub stdin_script: Vec<StdinStep>,
    /// true for the language server: being disabled by a lock is itself a violation
    pub must_not_block: bool,
}

#[derive(Clone, Debug)]
pub enum StdinStep {
    /// write these bytes to the participant's stdin
    Send(Vec<u8>),
    /// wait until the participant's stdout contains `text` at least `count` times
    WaitStdout { text: String, count: usize },
    /// close stdin
    Close,
}

#[derive(Clone, Copy, Debug, PartialEq, Eq, Hash)]
pub enum OpKind {
    Stat,
    OpenR,
    OpenW,
    OpenDir,
    Read,
    ReadDir,
    Write,
    Trunc,
    Rename,
    Link,
    Unlink,
    Mkdir,
    Rmdir,
    Utime,
    Lock,
    TryLock,
    Unlock,
    CloseLocked,
}

impl OpKind {
    pub fn as_str(&self) -> &'static str {
        match self {
            OpKind::Stat => "stat",
            OpKind::OpenR => "openr",
            OpKind::OpenW => "openw",
            OpKind::OpenDir => "opendir",
            OpKind::Read => "read",
            OpKind::ReadDir => "readdir",
            OpKind::Write => "write",
            OpKind::Trunc => "trunc",
            OpKind::Rename => "rename",
            OpKind::Link => "link",
            OpKind::Unlink => "unlink",
            OpKind::Mkdir => "mkdir",
            OpKind::Rmdir => "rmdir",
            OpKind::Utime => "utime",
            OpKind::Lock => "flock",
            OpKind::TryLock => "tryflock",
            OpKind::Unlock => "unlock",
            OpKind::CloseLocked => "closelocked",
        }
    }
    pub fn is_lock_op(&self) -> bool {
        matches!(self, OpKind::Lock | OpKind::TryLock | OpKind::Unlock | OpKind::CloseLocked)
    }
}

#[derive(Clone, Debug)]
pub struct Op {
    pub part: usize,
    pub tid: i32,
    pub kind: OpKind,
    /// path relative to CANON, temp-file names and long hashes abstracted
    pub path: String,
    pub path2: Option<String>,
    /// open: subset of "c" (O_CREAT) "t" (O_TRUNC) "x" (O_EXCL) "a" (O_APPEND); flock: "sh"/"ex"
    pub flags: String,
    /// was this operation a scheduling point (decision taken before it)?
    pub sched: bool,
    /// return value of the system call (negative errno on failure); i64::MIN = not finished
    pub ret: i64,
    /// (dev, ino) of the file behind the fd for fd-based operations
    pub ino: Option<(u64, u64)>,
}

impl Op {
    pub fn label(&self) -> String {
        let mut s = String::from(self.kind.as_str());
        if !self.flags.is_empty() {
            s.push('[');
            s.push_str(&self.flags);
            s.push(']');
        }
        s.push(':');
        s.push_str(&self.path);
        if let Some(p2) = &self.path2 {
            s.push_str("->");
            s.push_str(p2);
        }
        s
    }
    /// (path, write?, subtree?) triples this operation touches, for conflict detection.
    fn touches(&self) -> Vec<(String, bool, bool)> {
        let mut v = vec![];
        let own = |p: &str| !is_tmp_path(p);
        match self.kind {
            OpKind::Stat | OpKind::OpenR | OpKind::OpenDir | OpKind::Read | OpKind::ReadDir => {
                if own(&self.path) {
                    v.push((self.path.clone(), false, false));
                }
            }
            OpKind::OpenW => {
                if own(&self.path) {
                    v.push((self.path.clone(), true, false));
                }
                if self.flags.contains('c') {
                    v.push((parent_of(&self.path), true, false));
                }
            }
            OpKind::Write | OpKind::Trunc | OpKind::Utime => {
                if own(&self.path) {
                    v.push((self.path.clone(), true, false));
                }
            }
            OpKind::Unlink | OpKind::Mkdir | OpKind::Rmdir => {
                if own(&self.path) {
                    v.push((self.path.clone(), true, self.kind != OpKind::Unlink));
                }
                v.push((parent_of(&self.path), true, false));
            }
            OpKind::Rename | OpKind::Link => {
                if own(&self.path) {
                    v.push((self.path.clone(), true, true));
                }
                v.push((parent_of(&self.path), true, false));
                if let Some(p2) = &self.path2 {
                    if own(p2) {
                        v.push((p2.clone(), true, true));
                    }
                    v.push((parent_of(p2), true, false));
                }
            }
            OpKind::Lock | OpKind::TryLock | OpKind::Unlock | OpKind::CloseLocked => {
                v.push((format!("L!{}", self.path), true, false));
            }
        }
        v
    }
}

fn parent_of(p: &str) -> String {
    match p.rfind('/') {
        Some(i) => p[..i].to_string(),
        None => String::new(),
    }
}

fn is_tmp_component(c: &str) -> bool {
    c == ".tmp*" || (c.len() == 10 && c.starts_with(".tmp") && c[4..].chars().all(|x| x.is_ascii_alphanumeric()))
}
fn is_tmp_path(p: &str) -> bool {
    p.split('/').any(is_tmp_component)
}

/// Abstracts a CANON-relative path so that labels are reproducible between runs: temp names →
/// `.tmp*` / `tmp_obj_*`, runs of >= 16 hex digits (content hashes, uuids, object ids) and runs of
/// >= 8 decimal digits (random probe names) → `#`, the two-hex shard directory below
/// `fragments/` → `*`.
pub fn abstract_path(rel: &str) -> String {
    let mut out: Vec<String> = Vec::new();
    for c in rel.split('/') {
        if is_tmp_component(c) {
            out.push(".tmp*".to_string());
            continue;
        }
        if let Some(p) = ["tmp_obj_", "tmp_pack_", "tmp_idx_", "tmp_rev_"].iter().find(|p| c.starts_with(**p)) {
            out.push(format!("{p}*"));
            continue;
        }
        if c.len() == 2 && c.chars().all(|x| x.is_ascii_hexdigit()) && out.last().is_some_and(|p| p == "fragments") {
            out.push("*".to_string());
            continue;
        }
        let mut res = String::new();
        let mut run = String::new();
        let flush = |run: &mut String, res: &mut String| {
            let all_dec = run.chars().all(|x| x.is_ascii_digit());
            if run.len() >= 16 || (all_dec && run.len() >= 8) {
                res.push('#');
            } else {
                res.push_str(run);
            }
            run.clear();
        };
        for ch in c.chars() {
            if ch.is_ascii_digit() || ('a'..='f').contains(&ch) {
                run.push(ch);
            } else {
                flush(&mut run, &mut res);
                res.push(ch);
            }
        }
        flush(&mut run, &mut res);
        out.push(res);
    }
    out.join("/")
}

/// Footprint of one participant: which paths it reads / writes (solo trace ∪ current run).
#[derive(Clone, Debug, Default)]
pub struct Footprint {
    paths: BTreeMap<String, (bool, bool)>,
    subtree_writes: BTreeSet<String>,
}

impl Footprint {
    pub fn add(&mut self, op: &Op) {
        for (p, w, sub) in op.touches() {
            let e = self.paths.entry(p.clone()).or_insert((false, false));
            if w {
                e.1 = true;
            } else {
                e.0 = true;
            }
            if w && sub {
                self.subtree_writes.insert(p);
            }
        }
    }
    pub fn len(&self) -> usize {
        self.paths.len()
    }
    /// Does `op` (of another participant) conflict with anything in this footprint?
    pub fn conflicts(&self, op: &Op) -> bool {
        for (p, w, sub) in op.touches() {
            if let Some((_r, tw)) = self.paths.get(&p) {
                if w || *tw {
                    return true;
                }
            }
            // one of their subtree writes (rename/rmdir/mkdir of an ancestor)
            let mut a = p.as_str();
            while let Some(i) = a.rfind('/') {
                a = &a[..i];
                if self.subtree_writes.contains(a) {
                    return true;
                }
            }
            if w && sub {
                let lo = format!("{p}/");
                if let Some((k, _)) = self.paths.range(lo.clone()..).next() {
                    if k.starts_with(&lo) {
                        return true;
                    }
                }
            }
        }
        false
    }
}

// ------------------------------------------------------------------------------------------
// low level: ptrace, tracee memory, spawn, watchdog
// ------------------------------------------------------------------------------------------

const PTRACE_GET_SYSCALL_INFO: libc::c_uint = 0x420e;
const SYSCALL_INFO_ENTRY: u8 = 1;
const SYSCALL_INFO_EXIT: u8 = 2;

#[repr(C)]
#[derive(Clone, Copy)]
struct SyscallInfo {
    op: u8,
    pad: [u8; 3],
    arch: u32,
    ip: u64,
    sp: u64,
    /// entry: nr, args[6] ; exit: rval (data[0]), is_error (low byte of data[1])
    data: [u64; 8],
}

fn pt(req: libc::c_uint, pid: i32, addr: usize, data: usize) -> Result<i64, i32> {
    unsafe {
        *libc::__errno_location() = 0;
        let r = libc::ptrace(req, pid, addr as *mut libc::c_void, data as *mut libc::c_void);
        let e = *libc::__errno_location();
        if r == -1 && e != 0 { Err(e) } else { Ok(r as i64) }
    }
}

fn pt_resume(tid: i32, sig: i32) {
    let _ = pt(libc::PTRACE_SYSCALL, tid, 0, sig as usize);
}

fn syscall_info(tid: i32) -> Option<SyscallInfo> {
    let mut info = SyscallInfo { op: 0, pad: [0; 3], arch: 0, ip: 0, sp: 0, data: [0; 8] };
    let r = pt(
        PTRACE_GET_SYSCALL_INFO,
        tid,
        std::mem::size_of::<SyscallInfo>(),
        &mut info as *mut SyscallInfo as usize,
    );
    r.ok().map(|_| info)
}

fn read_mem(pid: i32, addr: u64, buf: &mut [u8]) -> isize {
    let local = libc::iovec { iov_base: buf.as_mut_ptr() as *mut libc::c_void, iov_len: buf.len() };
    let remote = libc::iovec { iov_base: addr as *mut libc::c_void, iov_len: buf.len() };
    unsafe { libc::process_vm_readv(pid, &local, 1, &remote, 1, 0) }
}

fn read_cstr(pid: i32, addr: u64) -> Option<String> {
    if addr == 0 {
        return None;
    }
    let mut out: Vec<u8> = Vec::new();
    let mut a = addr;
    loop {
        let rem = 4096 - (a % 4096) as usize;
        let mut buf = vec![0u8; rem];
        let n = read_mem(pid, a, &mut buf);
        if n <= 0 {
            return None;
        }
        let n = n as usize;
        if let Some(i) = buf[..n].iter().position(|&b| b == 0) {
            out.extend_from_slice(&buf[..i]);
            break;
        }
        out.extend_from_slice(&buf[..n]);
        a += n as u64;
        if out.len() > 16384 {
            return None;
        }
    }
    Some(String::from_utf8_lossy(&out).to_string())
}

/// Lexical normalisation of an absolute path (no symlinks exist in the scratch tree).
fn normalize(p: &str) -> String {
    let mut comps: Vec<&str> = vec![];
    for c in p.split('/') {
        match c {
            "" | "." => {}
            ".." => {
                comps.pop();
            }
            x => comps.push(x),
        }
    }
    format!("/{}", comps.join("/"))
}

/// CANON-relative part of an absolute path, None if outside the shared scratch root.
fn canon_rel(abs: &str) -> Option<String> {
    if abs == CANON {
        return Some(String::new());
    }
    abs.strip_prefix(CANON).and_then(|r| r.strip_prefix('/')).map(|r| r.to_string())
}

struct RunWatch {
    last_ms: AtomicU64,
    pids: Mutex<Vec<i32>>,
    hung: AtomicBool,
    done: AtomicBool,
    hang_ms: u64,
    /// > 0 while an interactive (stdin-scripted) participant is released: shorter idle limit
    interactive_ms: AtomicU64,
}

fn now_ms() -> u64 {
    static T0: OnceLock<Instant> = OnceLock::new();
    T0.get_or_init(Instant::now).elapsed().as_millis() as u64
}

fn watch_registry() -> &'static Mutex<Vec<Arc<RunWatch>>> {
    static REG: OnceLock<Mutex<Vec<Arc<RunWatch>>>> = OnceLock::new();
    REG.get_or_init(|| {
        std::thread::Builder::new()
            .name("e5-watchdog".into())
            .spawn(|| loop {
                std::thread::sleep(Duration::from_millis(250));
                let mut reg = watch_registry().lock().unwrap();
                reg.retain(|w| !w.done.load(Ordering::Relaxed));
                let now = now_ms();
                for w in reg.iter() {
                    let im = w.interactive_ms.load(Ordering::Relaxed);
                    let limit = if im > 0 { im.min(w.hang_ms) } else { w.hang_ms };
                    if now.saturating_sub(w.last_ms.load(Ordering::Relaxed)) > limit {
                        w.hung.store(true, Ordering::Relaxed);
                        for p in w.pids.lock().unwrap().iter() {
                            unsafe {
                                libc::kill(*p, libc::SIGKILL);
                            }
                        }
                    }
                }
            })
            .expect("spawn watchdog");
        Mutex::new(vec![])
    })
}

fn base_command(root: &Path, spec: &PartSpec, traced: bool) -> Command {
    let mut cmd = Command::new(&spec.program);
    cmd.args(&spec.args);
    let src = CString::new(root.to_str().unwrap()).unwrap();
    let dst = CString::new(CANON).unwrap();
    let cwd = CString::new(format!("{CANON}/{}", spec.cwd_rel)).unwrap();
    let slash = CString::new("/").unwrap();
    unsafe {
        cmd.pre_exec(move || {
            if libc::unshare(libc::CLONE_NEWNS) != 0 {
                return Err(std::io::Error::last_os_error());
            }
            if libc::mount(std::ptr::null(), slash.as_ptr(), std::ptr::null(), libc::MS_REC | libc::MS_PRIVATE, std::ptr::null()) != 0 {
                return Err(std::io::Error::last_os_error());
            }
            if libc::mount(src.as_ptr(), dst.as_ptr(), std::ptr::null(), libc::MS_BIND, std::ptr::null()) != 0 {
                return Err(std::io::Error::last_os_error());
            }
            if libc::chdir(cwd.as_ptr()) != 0 {
                return Err(std::io::Error::last_os_error());
            }
            if traced && libc::ptrace(libc::PTRACE_TRACEME, 0, 0, 0) != 0 {
                return Err(std::io::Error::last_os_error());
            }
            Ok(())
        });
    }
    cmd.env_clear();
    cmd.env("PATH", std::env::var("PATH").unwrap_or_else(|_| "/usr/bin:/bin".into()));
    cmd.env("HOME", format!("{CANON}/home"));
    cmd.env("XDG_CACHE_HOME", format!("{CANON}/cache"));
    cmd.env("NO_COLOR", "1");
    cmd.env("TERM", "dumb");
    for (k, v) in &spec.env {
        cmd.env(k, v);
    }
    cmd
}

/// Runs a participant WITHOUT tracing (reference runs, follow-up builds).
pub fn run_plain(root: &Path, spec: &PartSpec, timeout: Duration) -> PartOutcome {
    let mut cmd = base_command(root, spec, false);
    cmd.stdin(Stdio::null()).stdout(Stdio::piped()).stderr(Stdio::piped());
    let mut out = PartOutcome::default();
    let Ok(child) = cmd.spawn() else {
        out.stderr = "spawn failed".into();
        return out;
    };
    let pid = child.id() as i32;
    let killer_done = Arc::new(AtomicBool::new(false));
    let kd = killer_done.clone();
    let h = std::thread::spawn(move || {
        let t0 = Instant::now();
        while !kd.load(Ordering::Relaxed) {
            if t0.elapsed() > timeout {
                unsafe {
                    libc::kill(pid, libc::SIGKILL);
                }
                return;
            }
            std::thread::sleep(Duration::from_millis(20));
        }
    });
    let o = child.wait_with_output();
    killer_done.store(true, Ordering::Relaxed);
    let _ = h.join();
    if let Ok(o) = o {
        use std::os::unix::process::ExitStatusExt;
        out.exit = o.status.code();
        out.signal = o.status.signal();
        out.stdout = String::from_utf8_lossy(&o.stdout).to_string();
        out.stderr = String::from_utf8_lossy(&o.stderr).to_string();
    }
    out
}

fn spawn_traced(root: &Path, out_dir: &Path, spec: &PartSpec, idx: usize) -> Result<i32, String> {
    let mut cmd = base_command(root, spec, true);
    let so = std::fs::File::create(out_dir.join(format!("{idx}.stdout"))).map_err(|e| e.to_string())?;
    let se = std::fs::File::create(out_dir.join(format!("{idx}.stderr"))).map_err(|e| e.to_string())?;
    let mut feeder: Option<std::fs::File> = None;
    if !spec.stdin_script.is_empty() {
        let mut fds = [0i32; 2];
        if unsafe { libc::pipe2(fds.as_mut_ptr(), libc::O_CLOEXEC) } != 0 {
            return Err("pipe2 failed".into());
        }
        use std::os::fd::FromRawFd;
        let rd = unsafe { std::fs::File::from_raw_fd(fds[0]) };
        feeder = Some(unsafe { std::fs::File::from_raw_fd(fds[1]) });
        cmd.stdin(Stdio::from(rd));
    } else {
        match &spec.stdin {
            Some(p) => {
                let f = std::fs::File::open(p).map_err(|e| format!("stdin {}: {e}", p.display()))?;
                cmd.stdin(Stdio::from(f));
            }
            None => {
                cmd.stdin(Stdio::null());
            }
        }
    }
    cmd.stdout(Stdio::from(so)).stderr(Stdio::from(se));
    let child = cmd.spawn().map_err(|e| format!("spawn {}: {e}", spec.program.display()))?;
    let pid = child.id() as i32;
    std::mem::forget(child); // reaped through waitpid below
    if let Some(mut wr) = feeder {
        let steps = spec.stdin_script.clone();
        let so_path = out_dir.join(format!("{idx}.stdout"));
        std::thread::spawn(move || {
            use std::io::Write;
            let t0 = Instant::now();
            for st in steps {
                match st {
                    StdinStep::Send(b) => {
                        if wr.write_all(&b).is_err() {
                            return;
                        }
                        let _ = wr.flush();
                    }
                    StdinStep::WaitStdout { text, count } => loop {
                        let s = std::fs::read(&so_path).unwrap_or_default();
                        let s = String::from_utf8_lossy(&s);
                        if s.matches(text.as_str()).count() >= count {
                            break;
                        }
                        // the participant is gone, or the run was abandoned
                        if unsafe { libc::kill(pid, 0) } != 0 || t0.elapsed() > Duration::from_secs(600) {
                            return;
                        }
                        std::thread::sleep(Duration::from_millis(3));
                    },
                    StdinStep::Close => return,
                }
            }
        });
    }
    // the exec stop
    let mut status = 0;
    let r = unsafe { libc::waitpid(pid, &mut status, libc::__WALL) };
    if r != pid || !libc::WIFSTOPPED(status) {
        return Err(format!("participant {idx}: no exec stop (waitpid={r}, status={status:#x})"));
    }
    let opts = libc::PTRACE_O_TRACESYSGOOD
        | libc::PTRACE_O_TRACECLONE
        | libc::PTRACE_O_TRACEFORK
        | libc::PTRACE_O_TRACEVFORK
        | libc::PTRACE_O_TRACEEXEC
        | libc::PTRACE_O_EXITKILL;
    pt(libc::PTRACE_SETOPTIONS, pid, 0, opts as usize).map_err(|e| format!("PTRACE_SETOPTIONS errno {e}"))?;
    Ok(pid)
}

// ------------------------------------------------------------------------------------------
// one controlled execution
// ------------------------------------------------------------------------------------------

pub struct RunCfg<'a> {
    /// harness path of the sandbox root (bind-mounted on CANON inside every participant)
    pub root: &'a Path,
    /// directory OUTSIDE root receiving `<i>.stdout` / `<i>.stderr`
    pub out_dir: &'a Path,
    pub parts: &'a [PartSpec],
    /// solo footprints, one per participant (empty slice = no partial-order reduction info)
    pub footprints: &'a [Footprint],
    /// forced choices for the first decisions; afterwards the default policy applies
    pub prefix: &'a [u8],
    /// node hashes recorded by the run this prefix was derived from (divergence check)
    pub prefix_hashes: &'a [u64],
    /// labels of the chosen operations recorded earlier (divergence check for replay files)
    pub prefix_labels: &'a [String],
    /// partial-order reduction on (false = every visible operation is a scheduling point)
    pub por: bool,
    /// path fragments (of abstracted labels) whose operations are never scheduling points: files
    /// whose names/creation are not reproducible between runs of the SAME schedule (content-addressed
    /// blobs with unstable content). They stay in the trace and in the partial-read oracle.
    pub unstable: &'a [String],
    pub hang_ms: u64,
    /// idle limit while an interactive participant (language server) is released: no ptrace event
    /// for this long = the participant stalled (an OUTCOME, not a machinery error)
    pub stall_ms: u64,
    pub max_decisions: usize,
}

#[derive(Clone, Debug)]
pub struct Decision {
    pub enabled: Vec<usize>,
    pub current: Option<usize>,
    pub current_enabled: bool,
    pub chosen: usize,
    /// label of the operation the chosen participant was about to perform
    pub label: String,
    /// hash of the node (all pending labels + enabled set), excluding the choice
    pub hash: u64,
    pub cost_before: u32,
    /// index into `ops` of the first operation executed because of this decision
    pub op_idx: usize,
}

#[derive(Clone, Debug)]
pub struct WriteSession {
    pub part: usize,
    pub ino: (u64, u64),
    pub path: String,
    /// index (into ops) of the opening operation
    pub open_idx: usize,
    /// number of ops recorded when the fd was closed (None = still open at exit)
    pub close_at: Option<usize>,
    /// indices of mutating operations (the open itself if O_TRUNC/O_CREAT, writes, truncates)
    pub mutations: Vec<usize>,
}

#[derive(Clone, Debug, Default)]
pub struct PartOutcome {
    pub exit: Option<i32>,
    pub signal: Option<i32>,
    pub stdout: String,
    pub stderr: String,
    /// number of distinct threads/processes of this participant that performed visible operations
    pub visible_tids: usize,
    pub n_ops: usize,
    pub n_sched: usize,
}

#[derive(Clone, Debug, Default)]
pub struct RunResult {
    pub decisions: Vec<Decision>,
    pub ops: Vec<Op>,
    pub sessions: Vec<WriteSession>,
    pub parts: Vec<PartOutcome>,
    pub deadlock: Option<String>,
    /// "participant X (must not block) disabled on <lock> held by Y"
    pub blocked_must_not: Vec<String>,
    /// an interactive participant produced no event for `stall_ms` while released (it waits for
    /// input its script never sends because an expected output never came)
    pub stalled: Option<usize>,
    /// machinery errors: divergence, hang, ptrace failure
    pub error: Option<String>,
    /// visible operations performed concurrently inside one participant (limitation)
    pub multi_visible: Vec<String>,
    pub cost: u32,
    pub wall_ms: u64,
}

impl RunResult {
    pub fn schedule(&self) -> Vec<u8> {
        self.decisions.iter().map(|d| d.chosen as u8).collect()
    }
    pub fn hashes(&self) -> Vec<u64> {
        self.decisions.iter().map(|d| d.hash).collect()
    }
    pub fn labels(&self) -> Vec<String> {
        self.decisions.iter().map(|d| d.label.clone()).collect()
    }
}

/// Run-length text of a schedule: "0x12 1x3 0x40".
pub fn rle(s: &[u8]) -> String {
    let mut out = vec![];
    let mut i = 0;
    while i < s.len() {
        let mut j = i;
        while j < s.len() && s[j] == s[i] {
            j += 1;
        }
        out.push(format!("{}x{}", s[i], j - i));
        i = j;
    }
    out.join(" ")
}

#[derive(Clone, Debug)]
struct FdInfo {
    path: String,
    real: String,
    write: bool,
    is_dir: bool,
    read_done: bool,
    locked: bool,
    ino: (u64, u64),
    session: Option<usize>,
}

#[derive(Clone, Debug)]
enum Aux {
    None,
    Open { real: String, label: String, write: bool, dir: bool, mutates: bool },
    Close { fd: i32 },
    Dup { fd: i32 },
    Flock { fd: i32, how: i32 },
    WriteFd { fd: i32 },
}

struct Entry {
    aux: Aux,
    op_idx: Option<usize>,
}

struct TidSt {
    part: usize,
    tgid: i32,
    entry: Option<Entry>,
    expect_stop: bool,
}

#[derive(Clone, Copy, PartialEq, Eq, Debug)]
enum PState {
    Fresh,
    Running,
    AtPoint,
    Done,
}

struct Pending {
    tid: i32,
    op: Op,
    aux: Aux,
    /// blocking lock request: (inode, exclusive, tgid, fd)
    lock_req: Option<((u64, u64), bool, i32, i32)>,
}

struct PartSt {
    leader: i32,
    state: PState,
    pending: Option<Pending>,
    exit: Option<i32>,
    signal: Option<i32>,
    vis_tids: BTreeSet<i32>,
    n_ops: usize,
    n_sched: usize,
}

#[derive(Clone, Debug)]
struct Holder {
    part: usize,
    tgid: i32,
    fd: i32,
    ex: bool,
}

enum Decoded {
    None,
    Track(Aux),
    Visible(Op, Aux, Option<((u64, u64), bool, i32, i32)>),
}

struct Ctl<'a> {
    cfg: &'a RunCfg<'a>,
    tids: HashMap<i32, TidSt>,
    early: HashMap<i32, i32>,
    parts: Vec<PartSt>,
    fds: HashMap<(i32, i32), FdInfo>,
    locks: HashMap<(u64, u64), Vec<Holder>>,
    ops: Vec<Op>,
    sessions: Vec<WriteSession>,
    dyn_fp: Vec<Footprint>,
    watch: Arc<RunWatch>,
    multi_visible: Vec<String>,
    error: Option<String>,
    stalled: Option<usize>,
}

fn proc_link(tid: i32, what: &str) -> Option<String> {
    std::fs::read_link(format!("/proc/{tid}/{what}")).ok().map(|p| p.to_string_lossy().to_string())
}

fn proc_fd_stat(tid: i32, fd: i64) -> Option<((u64, u64), bool)> {
    use std::os::unix::fs::MetadataExt;
    let m = std::fs::metadata(format!("/proc/{tid}/fd/{fd}")).ok()?;
    Some(((m.dev(), m.ino()), m.is_dir()))
}

fn tgid_of(tid: i32) -> i32 {
    if let Ok(s) = std::fs::read_to_string(format!("/proc/{tid}/status")) {
        for l in s.lines() {
            if let Some(r) = l.strip_prefix("Tgid:") {
                return r.trim().parse().unwrap_or(tid);
            }
        }
    }
    tid
}

impl<'a> Ctl<'a> {
    fn resolve(&self, tid: i32, tgid: i32, dirfd: i32, path: &str) -> String {
        if path.starts_with('/') {
            return normalize(path);
        }
        let base = if dirfd == libc::AT_FDCWD {
            proc_link(tid, "cwd").unwrap_or_else(|| "/".into())
        } else if let Some(f) = self.fds.get(&(tgid, dirfd)) {
            f.real.clone()
        } else {
            proc_link(tid, &format!("fd/{dirfd}")).unwrap_or_else(|| "/".into())
        };
        if path.is_empty() { normalize(&base) } else { normalize(&format!("{base}/{path}")) }
    }

    fn vis(&self, abs: &str) -> Option<String> {
        canon_rel(abs).map(|r| abstract_path(&r))
    }

    fn mk_op(&self, part: usize, tid: i32, kind: OpKind, path: String) -> Op {
        Op { part, tid, kind, path, path2: None, flags: String::new(), sched: false, ret: i64::MIN, ino: None }
    }

    fn decode(&mut self, tid: i32, nr: i64, a: &[u64]) -> Decoded {
        let (part, tgid) = {
            let t = &self.tids[&tid];
            (t.part, t.tgid)
        };
        let path_at = |me: &Self, dirfd: i32, addr: u64| -> Option<(String, Option<String>)> {
            let p = read_cstr(tid, addr)?;
            let abs = me.resolve(tid, tgid, dirfd, &p);
            let v = me.vis(&abs);
            Some((abs, v))
        };
        let cwd = libc::AT_FDCWD;
        // ---- existence checks
        let stat_like: Option<(i32, u64, bool)> = match nr {
            libc::SYS_stat | libc::SYS_lstat | libc::SYS_access | libc::SYS_readlink => Some((cwd, a[0], false)),
            libc::SYS_newfstatat => Some((a[0] as i32, a[1], (a[3] as i32 & libc::AT_EMPTY_PATH) != 0)),
            libc::SYS_statx => Some((a[0] as i32, a[1], (a[2] as i32 & libc::AT_EMPTY_PATH) != 0)),
            libc::SYS_faccessat | libc::SYS_faccessat2 | libc::SYS_readlinkat => Some((a[0] as i32, a[1], false)),
            _ => None,
        };
        if let Some((dirfd, addr, empty_ok)) = stat_like {
            let Some(p) = read_cstr(tid, addr) else { return Decoded::None };
            if p.is_empty() && empty_ok {
                return Decoded::None; // fstat on an fd
            }
            let abs = self.resolve(tid, tgid, dirfd, &p);
            return match self.vis(&abs) {
                Some(l) => Decoded::Visible(self.mk_op(part, tid, OpKind::Stat, l), Aux::None, None),
                None => Decoded::None,
            };
        }
        match nr {
            libc::SYS_open | libc::SYS_openat | libc::SYS_creat | libc::SYS_openat2 => {
                let (dirfd, addr, flags) = match nr {
                    libc::SYS_open => (cwd, a[0], a[1] as i32),
                    libc::SYS_creat => (cwd, a[0], libc::O_CREAT | libc::O_WRONLY | libc::O_TRUNC),
                    libc::SYS_openat => (a[0] as i32, a[1], a[2] as i32),
                    _ => {
                        // openat2: struct open_how { u64 flags; u64 mode; u64 resolve; }
                        let mut b = [0u8; 8];
                        let n = read_mem(tid, a[2], &mut b);
                        (a[0] as i32, a[1], if n == 8 { u64::from_le_bytes(b) as i32 } else { 0 })
                    }
                };
                let Some((abs, v)) = path_at(self, dirfd, addr) else { return Decoded::None };
                let Some(label) = v else { return Decoded::None };
                let acc = flags & libc::O_ACCMODE;
                let dir = flags & libc::O_DIRECTORY != 0;
                let write = acc != libc::O_RDONLY || flags & (libc::O_TRUNC | libc::O_CREAT) != 0;
                let kind = if flags & libc::O_PATH != 0 {
                    OpKind::Stat
                } else if dir {
                    OpKind::OpenDir
                } else if write {
                    OpKind::OpenW
                } else {
                    OpKind::OpenR
                };
                let mut op = self.mk_op(part, tid, kind, label.clone());
                if kind == OpKind::OpenW {
                    for (bit, c) in [(libc::O_CREAT, 'c'), (libc::O_TRUNC, 't'), (libc::O_EXCL, 'x'), (libc::O_APPEND, 'a')] {
                        if flags & bit != 0 {
                            op.flags.push(c);
                        }
                    }
                }
                let mutates = flags & (libc::O_TRUNC | libc::O_CREAT) != 0;
                Decoded::Visible(op, Aux::Open { real: abs, label, write: kind == OpKind::OpenW, dir, mutates }, None)
            }
            libc::SYS_read | libc::SYS_pread64 | libc::SYS_readv | libc::SYS_preadv | libc::SYS_preadv2 | libc::SYS_getdents64 | libc::SYS_getdents => {
                let fd = a[0] as i32;
                let Some(f) = self.fds.get_mut(&(tgid, fd)) else { return Decoded::None };
                if f.read_done {
                    return Decoded::None;
                }
                f.read_done = true;
                let kind = if f.is_dir { OpKind::ReadDir } else { OpKind::Read };
                let (p, ino) = (f.path.clone(), f.ino);
                let mut op = self.mk_op(part, tid, kind, p);
                op.ino = Some(ino);
                Decoded::Visible(op, Aux::None, None)
            }
            libc::SYS_write | libc::SYS_pwrite64 | libc::SYS_writev | libc::SYS_pwritev | libc::SYS_pwritev2 | libc::SYS_ftruncate => {
                let fd = a[0] as i32;
                let Some(f) = self.fds.get(&(tgid, fd)) else { return Decoded::None };
                let kind = if nr == libc::SYS_ftruncate { OpKind::Trunc } else { OpKind::Write };
                let mut op = self.mk_op(part, tid, kind, f.path.clone());
                op.ino = Some(f.ino);
                Decoded::Visible(op, Aux::WriteFd { fd }, None)
            }
            libc::SYS_copy_file_range | libc::SYS_sendfile => {
                let (fd_in, fd_out) = if nr == libc::SYS_sendfile { (a[1] as i32, a[0] as i32) } else { (a[0] as i32, a[2] as i32) };
                if let Some(f) = self.fds.get(&(tgid, fd_out)) {
                    let mut op = self.mk_op(part, tid, OpKind::Write, f.path.clone());
                    op.ino = Some(f.ino);
                    return Decoded::Visible(op, Aux::WriteFd { fd: fd_out }, None);
                }
                if let Some(f) = self.fds.get_mut(&(tgid, fd_in)) {
                    if !f.read_done {
                        f.read_done = true;
                        let (p, ino) = (f.path.clone(), f.ino);
                        let mut op = self.mk_op(part, tid, OpKind::Read, p);
                        op.ino = Some(ino);
                        return Decoded::Visible(op, Aux::None, None);
                    }
                }
                Decoded::None
            }
            libc::SYS_mmap => {
                let fd = a[4] as i32;
                if fd < 0 {
                    return Decoded::None;
                }
                let Some(f) = self.fds.get_mut(&(tgid, fd)) else { return Decoded::None };
                if f.read_done || f.is_dir {
                    return Decoded::None;
                }
                f.read_done = true;
                let (p, ino) = (f.path.clone(), f.ino);
                let mut op = self.mk_op(part, tid, OpKind::Read, p);
                op.ino = Some(ino);
                Decoded::Visible(op, Aux::None, None)
            }
            libc::SYS_truncate => {
                let Some((_, Some(l))) = path_at(self, cwd, a[0]) else { return Decoded::None };
                Decoded::Visible(self.mk_op(part, tid, OpKind::Trunc, l), Aux::None, None)
            }
            libc::SYS_rename | libc::SYS_renameat | libc::SYS_renameat2 | libc::SYS_link | libc::SYS_linkat | libc::SYS_symlink | libc::SYS_symlinkat => {
                let (d1, p1, d2, p2) = match nr {
                    libc::SYS_rename | libc::SYS_link => (cwd, a[0], cwd, a[1]),
                    libc::SYS_symlink => (cwd, 0, cwd, a[1]),
                    libc::SYS_symlinkat => (cwd, 0, a[1] as i32, a[2]),
                    _ => (a[0] as i32, a[1], a[2] as i32, a[3]),
                };
                let v1 = if p1 != 0 { path_at(self, d1, p1).and_then(|x| x.1) } else { None };
                let v2 = path_at(self, d2, p2).and_then(|x| x.1);
                if v1.is_none() && v2.is_none() {
                    return Decoded::None;
                }
                let is_rename = matches!(nr, libc::SYS_rename | libc::SYS_renameat | libc::SYS_renameat2);
                let kind = if is_rename { OpKind::Rename } else { OpKind::Link };
                let mut op = self.mk_op(part, tid, kind, v1.clone().unwrap_or_else(|| "<outside>".into()));
                op.path2 = Some(v2.unwrap_or_else(|| "<outside>".into()));
                Decoded::Visible(op, Aux::None, None)
            }
            libc::SYS_unlink | libc::SYS_rmdir | libc::SYS_mkdir | libc::SYS_unlinkat | libc::SYS_mkdirat => {
                let (dirfd, addr) = match nr {
                    libc::SYS_unlinkat | libc::SYS_mkdirat => (a[0] as i32, a[1]),
                    _ => (cwd, a[0]),
                };
                let Some((_, Some(l))) = path_at(self, dirfd, addr) else { return Decoded::None };
                let kind = match nr {
                    libc::SYS_unlink => OpKind::Unlink,
                    libc::SYS_rmdir => OpKind::Rmdir,
                    libc::SYS_unlinkat => {
                        if a[2] as i32 & libc::AT_REMOVEDIR != 0 { OpKind::Rmdir } else { OpKind::Unlink }
                    }
                    _ => OpKind::Mkdir,
                };
                Decoded::Visible(self.mk_op(part, tid, kind, l), Aux::None, None)
            }
            libc::SYS_utimensat => {
                let dirfd = a[0] as i32;
                if a[1] == 0 {
                    let Some(f) = self.fds.get(&(tgid, dirfd)) else { return Decoded::None };
                    let op = self.mk_op(part, tid, OpKind::Utime, f.path.clone());
                    return Decoded::Visible(op, Aux::None, None);
                }
                let Some((_, Some(l))) = path_at(self, dirfd, a[1]) else { return Decoded::None };
                Decoded::Visible(self.mk_op(part, tid, OpKind::Utime, l), Aux::None, None)
            }
            libc::SYS_flock => {
                let fd = a[0] as i32;
                let how = a[1] as i32;
                let Some(f) = self.fds.get(&(tgid, fd)) else { return Decoded::None };
                let base = how & !libc::LOCK_NB;
                let (kind, flags) = if base == libc::LOCK_UN {
                    (OpKind::Unlock, "")
                } else if how & libc::LOCK_NB != 0 {
                    (OpKind::TryLock, if base == libc::LOCK_EX { "ex" } else { "sh" })
                } else {
                    (OpKind::Lock, if base == libc::LOCK_EX { "ex" } else { "sh" })
                };
                let ino = f.ino;
                let mut op = self.mk_op(part, tid, kind, f.path.clone());
                op.flags = flags.to_string();
                op.ino = Some(ino);
                let req = if kind == OpKind::Lock { Some((ino, base == libc::LOCK_EX, tgid, fd)) } else { None };
                Decoded::Visible(op, Aux::Flock { fd, how }, req)
            }
            libc::SYS_close => {
                let fd = a[0] as i32;
                let Some(f) = self.fds.get(&(tgid, fd)) else { return Decoded::None };
                if f.locked {
                    let mut op = self.mk_op(part, tid, OpKind::CloseLocked, f.path.clone());
                    op.ino = Some(f.ino);
                    Decoded::Visible(op, Aux::Close { fd }, None)
                } else {
                    Decoded::Track(Aux::Close { fd })
                }
            }
            libc::SYS_dup | libc::SYS_dup2 | libc::SYS_dup3 => {
                let fd = a[0] as i32;
                if self.fds.contains_key(&(tgid, fd)) { Decoded::Track(Aux::Dup { fd }) } else { Decoded::None }
            }
            libc::SYS_fcntl => {
                let fd = a[0] as i32;
                let cmd = a[1] as i32;
                if (cmd == libc::F_DUPFD || cmd == libc::F_DUPFD_CLOEXEC) && self.fds.contains_key(&(tgid, fd)) {
                    Decoded::Track(Aux::Dup { fd })
                } else {
                    Decoded::None
                }
            }
            _ => Decoded::None,
        }
    }
}

impl<'a> Ctl<'a> {
    fn is_sched(&self, op: &Op) -> bool {
        if self.cfg.unstable.iter().any(|u| op.path.contains(u.as_str()) || op.path2.as_ref().is_some_and(|p| p.contains(u.as_str()))) {
            return false;
        }
        if !self.cfg.por {
            return true;
        }
        for j in 0..self.parts.len() {
            if j == op.part {
                continue;
            }
            if self.cfg.footprints.get(j).is_some_and(|f| f.conflicts(op)) || self.dyn_fp[j].conflicts(op) {
                return true;
            }
        }
        false
    }

    fn release_lock(&mut self, tgid: i32, fd: Option<i32>) {
        for hs in self.locks.values_mut() {
            hs.retain(|h| !(h.tgid == tgid && fd.is_none_or(|f| f == h.fd)));
        }
    }

    /// holder (of another open file description) that conflicts with a request
    fn conflicting_holder(&self, req: &((u64, u64), bool, i32, i32)) -> Option<Holder> {
        let (ino, ex, tgid, fd) = req;
        self.locks.get(ino).and_then(|hs| hs.iter().find(|h| !(h.tgid == *tgid && h.fd == *fd) && (*ex || h.ex)).cloned())
    }

    fn enabled(&self, p: usize) -> bool {
        let ps = &self.parts[p];
        match ps.state {
            PState::Fresh => true,
            PState::AtPoint => match ps.pending.as_ref().and_then(|x| x.lock_req.as_ref()) {
                Some(req) => self.conflicting_holder(req).is_none(),
                None => true,
            },
            _ => false,
        }
    }

    fn record_op(&mut self, mut op: Op, sched: bool) -> usize {
        op.sched = sched;
        let p = op.part;
        self.dyn_fp[p].add(&op);
        self.parts[p].n_ops += 1;
        if sched {
            self.parts[p].n_sched += 1;
        }
        self.ops.push(op);
        self.ops.len() - 1
    }

    fn on_entry(&mut self, tid: i32, info: &SyscallInfo, released: usize) {
        let nr = info.data[0] as i64;
        let args: [u64; 6] = [info.data[1], info.data[2], info.data[3], info.data[4], info.data[5], info.data[6]];
        match self.decode(tid, nr, &args) {
            Decoded::None => pt_resume(tid, 0),
            Decoded::Track(aux) => {
                self.tids.get_mut(&tid).unwrap().entry = Some(Entry { aux, op_idx: None });
                pt_resume(tid, 0);
            }
            Decoded::Visible(op, aux, lock_req) => {
                let part = op.part;
                self.parts[part].vis_tids.insert(tid);
                let sched = self.is_sched(&op) || lock_req.as_ref().is_some_and(|r| self.conflicting_holder(r).is_some());
                let concurrent = part != released || self.parts[part].state != PState::Running;
                if concurrent && sched {
                    if self.multi_visible.len() < 8 {
                        self.multi_visible.push(format!("participant {part} tid {tid}: {} while the participant was not released", op.label()));
                    }
                }
                if !sched || concurrent {
                    let idx = self.record_op(op, false);
                    self.tids.get_mut(&tid).unwrap().entry = Some(Entry { aux, op_idx: Some(idx) });
                    pt_resume(tid, 0);
                } else {
                    self.parts[part].pending = Some(Pending { tid, op, aux, lock_req });
                    self.parts[part].state = PState::AtPoint;
                }
            }
        }
    }

    fn on_exit(&mut self, tid: i32, info: &SyscallInfo) {
        let rval = info.data[0] as i64;
        let (tgid, part, entry) = {
            let t = self.tids.get_mut(&tid).unwrap();
            (t.tgid, t.part, t.entry.take())
        };
        if let Some(e) = entry {
            if let Some(i) = e.op_idx {
                self.ops[i].ret = rval;
            }
            match e.aux {
                Aux::None => {}
                Aux::Open { real, label, write, dir, mutates } => {
                    if rval >= 0 {
                        let (ino, is_dir) = proc_fd_stat(tid, rval).unwrap_or(((0, 0), dir));
                        let mut session = None;
                        if write {
                            let oi = e.op_idx.unwrap_or(self.ops.len());
                            self.sessions.push(WriteSession {
                                part,
                                ino,
                                path: label.clone(),
                                open_idx: oi,
                                close_at: None,
                                mutations: if mutates { vec![oi] } else { vec![] },
                            });
                            session = Some(self.sessions.len() - 1);
                        }
                        if let Some(i) = e.op_idx {
                            self.ops[i].ino = Some(ino);
                        }
                        self.fds.insert(
                            (tgid, rval as i32),
                            FdInfo { path: label, real, write, is_dir: is_dir || dir, read_done: false, locked: false, ino, session },
                        );
                    }
                }
                Aux::Close { fd } => {
                    if let Some(f) = self.fds.remove(&(tgid, fd)) {
                        if let Some(s) = f.session {
                            self.sessions[s].close_at = Some(self.ops.len());
                        }
                        if f.locked {
                            self.release_lock(tgid, Some(fd));
                        }
                    }
                }
                Aux::Dup { fd } => {
                    if rval >= 0 {
                        if let Some(mut f) = self.fds.get(&(tgid, fd)).cloned() {
                            f.session = None;
                            f.locked = false;
                            self.fds.insert((tgid, rval as i32), f);
                        }
                    }
                }
                Aux::Flock { fd, how } => {
                    if rval == 0 {
                        let base = how & !libc::LOCK_NB;
                        self.release_lock(tgid, Some(fd));
                        let ino = self.fds.get(&(tgid, fd)).map(|f| f.ino);
                        if let Some(f) = self.fds.get_mut(&(tgid, fd)) {
                            f.locked = base != libc::LOCK_UN;
                        }
                        if base != libc::LOCK_UN {
                            if let Some(ino) = ino {
                                self.locks.entry(ino).or_default().push(Holder { part, tgid, fd, ex: base == libc::LOCK_EX });
                            }
                        }
                    } else if how & libc::LOCK_NB == 0 && self.error.is_none() {
                        self.error = Some(format!("blocking flock of participant {part} returned {rval}"));
                    }
                }
                Aux::WriteFd { fd } => {
                    if rval >= 0 {
                        if let (Some(s), Some(i)) = (self.fds.get(&(tgid, fd)).and_then(|f| f.session), e.op_idx) {
                            self.sessions[s].mutations.push(i);
                        }
                    }
                }
            }
        }
        pt_resume(tid, 0);
    }

    fn register_tid(&mut self, tid: i32, part: usize, parent_tgid: i32) {
        let tgid = tgid_of(tid);
        if tgid != parent_tgid {
            // new process: inherits the descriptor table
            let copy: Vec<((i32, i32), FdInfo)> = self
                .fds
                .iter()
                .filter(|((g, _), _)| *g == parent_tgid)
                .map(|((_, fd), f)| {
                    let mut f = f.clone();
                    f.session = None;
                    f.locked = false;
                    ((tgid, *fd), f)
                })
                .collect();
            self.fds.extend(copy);
            self.watch.pids.lock().unwrap().push(tgid);
        }
        self.tids.insert(tid, TidSt { part, tgid, entry: None, expect_stop: true });
    }

    fn handle(&mut self, pid: i32, status: i32, released: usize) {
        if !self.tids.contains_key(&pid) {
            if libc::WIFSTOPPED(status) {
                self.early.insert(pid, status);
            }
            return;
        }
        if libc::WIFEXITED(status) || libc::WIFSIGNALED(status) {
            let t = self.tids.remove(&pid).unwrap();
            if pid == t.tgid {
                self.release_lock(t.tgid, None);
                let keys: Vec<(i32, i32)> = self.fds.keys().filter(|(g, _)| *g == t.tgid).cloned().collect();
                for k in keys {
                    if let Some(f) = self.fds.remove(&k) {
                        if let Some(s) = f.session {
                            if self.sessions[s].close_at.is_none() {
                                self.sessions[s].close_at = Some(self.ops.len());
                            }
                        }
                    }
                }
            }
            let ps = &mut self.parts[t.part];
            if pid == ps.leader {
                ps.state = PState::Done;
                ps.pending = None;
                if libc::WIFEXITED(status) {
                    ps.exit = Some(libc::WEXITSTATUS(status));
                } else {
                    ps.signal = Some(libc::WTERMSIG(status));
                }
            }
            return;
        }
        if !libc::WIFSTOPPED(status) {
            return;
        }
        let sig = libc::WSTOPSIG(status);
        let event = (status >> 16) & 0xff;
        if event != 0 {
            if event == libc::PTRACE_EVENT_CLONE || event == libc::PTRACE_EVENT_FORK || event == libc::PTRACE_EVENT_VFORK {
                let mut newpid: libc::c_ulong = 0;
                let _ = pt(libc::PTRACE_GETEVENTMSG, pid, 0, &mut newpid as *mut libc::c_ulong as usize);
                let (part, tgid) = {
                    let t = &self.tids[&pid];
                    (t.part, t.tgid)
                };
                let newpid = newpid as i32;
                if newpid > 0 {
                    if self.early.remove(&newpid).is_some() {
                        self.register_tid(newpid, part, tgid);
                        self.tids.get_mut(&newpid).unwrap().expect_stop = false;
                        pt_resume(newpid, 0);
                    } else {
                        self.register_tid(newpid, part, tgid);
                    }
                }
            }
            pt_resume(pid, 0);
            return;
        }
        if sig == (libc::SIGTRAP | 0x80) {
            match syscall_info(pid) {
                Some(info) if info.op == SYSCALL_INFO_ENTRY => self.on_entry(pid, &info, released),
                Some(info) if info.op == SYSCALL_INFO_EXIT => self.on_exit(pid, &info),
                _ => pt_resume(pid, 0),
            }
            return;
        }
        // signal-delivery stop
        let t = self.tids.get_mut(&pid).unwrap();
        if t.expect_stop && sig == libc::SIGSTOP {
            t.expect_stop = false;
            pt_resume(pid, 0);
        } else {
            pt_resume(pid, sig);
        }
    }

    fn wait_any(&mut self) -> Option<(i32, i32)> {
        loop {
            let mut status = 0;
            let r = unsafe { libc::waitpid(-1, &mut status, libc::__WALL | libc::__WNOTHREAD) };
            if r > 0 {
                self.watch.last_ms.store(now_ms(), Ordering::Relaxed);
                return Some((r, status));
            }
            let e = unsafe { *libc::__errno_location() };
            if e == libc::EINTR {
                continue;
            }
            return None;
        }
    }

    /// Releases participant `x` (executing its pending operation) until it reaches its next
    /// scheduling point or terminates.
    fn advance(&mut self, x: usize) {
        match self.parts[x].state {
            PState::Fresh => {
                self.parts[x].state = PState::Running;
                pt_resume(self.parts[x].leader, 0);
            }
            PState::AtPoint => {
                let p = self.parts[x].pending.take().unwrap();
                let idx = self.record_op(p.op, true);
                self.tids.get_mut(&p.tid).unwrap().entry = Some(Entry { aux: p.aux, op_idx: Some(idx) });
                self.parts[x].state = PState::Running;
                pt_resume(p.tid, 0);
            }
            _ => return,
        }
        let interactive = !self.cfg.parts[x].stdin_script.is_empty();
        self.watch.last_ms.store(now_ms(), Ordering::Relaxed);
        self.watch.interactive_ms.store(if interactive { self.cfg.stall_ms } else { 0 }, Ordering::Relaxed);
        while self.parts[x].state == PState::Running {
            if self.watch.hung.load(Ordering::Relaxed) && self.error.is_none() && self.stalled.is_none() {
                if interactive {
                    self.stalled = Some(x);
                } else {
                    self.error = Some(format!("watchdog: no progress for {} ms while participant {x} was released", self.cfg.hang_ms));
                }
            }
            match self.wait_any() {
                Some((pid, st)) => self.handle(pid, st, x),
                None => {
                    if self.error.is_none() {
                        self.error = Some("waitpid: no children left while a participant was running".into());
                    }
                    self.parts[x].state = PState::Done;
                }
            }
        }
        self.watch.interactive_ms.store(0, Ordering::Relaxed);
    }

    fn node_hash(&self, k: usize, enabled: &[usize]) -> u64 {
        let mut h = std::collections::hash_map::DefaultHasher::new();
        k.hash(&mut h);
        for p in &self.parts {
            match p.state {
                PState::Done => 0u8.hash(&mut h),
                PState::Fresh => 1u8.hash(&mut h),
                _ => {
                    2u8.hash(&mut h);
                    p.pending.as_ref().map(|x| x.op.label()).hash(&mut h);
                }
            }
        }
        enabled.hash(&mut h);
        h.finish()
    }

    fn kill_all(&mut self) {
        let pids: Vec<i32> = self.watch.pids.lock().unwrap().clone();
        for p in pids {
            unsafe {
                libc::kill(p, libc::SIGKILL);
            }
        }
        // reap everything that is left
        loop {
            let mut status = 0;
            let r = unsafe { libc::waitpid(-1, &mut status, libc::__WALL | libc::__WNOTHREAD) };
            if r <= 0 {
                let e = unsafe { *libc::__errno_location() };
                if r < 0 && e == libc::EINTR {
                    continue;
                }
                break;
            }
        }
    }
}

pub fn run_schedule(cfg: &RunCfg) -> RunResult {
    let t0 = Instant::now();
    let n = cfg.parts.len();
    let _ = std::fs::create_dir_all(cfg.out_dir);
    let watch = Arc::new(RunWatch {
        last_ms: AtomicU64::new(now_ms()),
        pids: Mutex::new(vec![]),
        hung: AtomicBool::new(false),
        done: AtomicBool::new(false),
        hang_ms: cfg.hang_ms,
        interactive_ms: AtomicU64::new(0),
    });
    watch_registry().lock().unwrap().push(watch.clone());
    let mut ctl = Ctl {
        cfg,
        tids: HashMap::new(),
        early: HashMap::new(),
        parts: vec![],
        fds: HashMap::new(),
        locks: HashMap::new(),
        ops: vec![],
        sessions: vec![],
        dyn_fp: vec![Footprint::default(); n],
        watch: watch.clone(),
        multi_visible: vec![],
        error: None,
        stalled: None,
    };
    let mut res = RunResult::default();
    for (i, spec) in cfg.parts.iter().enumerate() {
        match spawn_traced(cfg.root, cfg.out_dir, spec, i) {
            Ok(pid) => {
                watch.pids.lock().unwrap().push(pid);
                ctl.tids.insert(pid, TidSt { part: i, tgid: pid, entry: None, expect_stop: false });
                ctl.parts.push(PartSt {
                    leader: pid,
                    state: PState::Fresh,
                    pending: None,
                    exit: None,
                    signal: None,
                    vis_tids: BTreeSet::new(),
                    n_ops: 0,
                    n_sched: 0,
                });
            }
            Err(e) => {
                ctl.error = Some(e);
                break;
            }
        }
    }
    if ctl.error.is_none() {
        // every participant runs up to its first scheduling point (those prefixes commute)
        for i in 0..n {
            ctl.advance(i);
        }
        let mut current: Option<usize> = None;
        let mut cost = 0u32;
        let mut k = 0usize;
        loop {
            if ctl.error.is_some() || ctl.stalled.is_some() {
                break;
            }
            let live: Vec<usize> = (0..n).filter(|&i| ctl.parts[i].state != PState::Done).collect();
            if live.is_empty() {
                break;
            }
            let enabled: Vec<usize> = live.iter().cloned().filter(|&i| ctl.enabled(i)).collect();
            for &i in &live {
                if cfg.parts[i].must_not_block && !enabled.contains(&i) {
                    if let Some(p) = &ctl.parts[i].pending {
                        let holder = p.lock_req.as_ref().and_then(|r| ctl.conflicting_holder(r)).map(|h| h.part);
                        let msg = format!("{}|{}|{:?}", cfg.parts[i].name, p.op.path, holder);
                        if !res.blocked_must_not.contains(&msg) {
                            res.blocked_must_not.push(msg);
                        }
                    }
                }
            }
            if enabled.is_empty() {
                let desc: Vec<String> = live
                    .iter()
                    .map(|&i| {
                        let p = ctl.parts[i].pending.as_ref();
                        let holder = p.and_then(|p| p.lock_req.as_ref()).and_then(|r| ctl.conflicting_holder(r)).map(|h| h.part);
                        format!("{} waits at {} held by participant {:?}", cfg.parts[i].name, p.map(|p| p.op.label()).unwrap_or_default(), holder)
                    })
                    .collect();
                res.deadlock = Some(desc.join("; "));
                break;
            }
            if k >= cfg.max_decisions {
                ctl.error = Some(format!("step horizon of {} decisions reached", cfg.max_decisions));
                break;
            }
            let hash = ctl.node_hash(k, &enabled);
            let cur_enabled = current.is_some_and(|c| enabled.contains(&c));
            let chosen = if k < cfg.prefix.len() {
                let c = cfg.prefix[k] as usize;
                if let Some(h) = cfg.prefix_hashes.get(k) {
                    if *h != hash {
                        ctl.error = Some(format!("divergence while replaying the prefix at decision {k}: node differs from the recorded one (pending: {:?})",
                            (0..n).map(|i| ctl.parts[i].pending.as_ref().map(|p| p.op.label())).collect::<Vec<_>>()));
                        break;
                    }
                }
                if !enabled.contains(&c) {
                    ctl.error = Some(format!("divergence while replaying the prefix at decision {k}: participant {c} is not enabled"));
                    break;
                }
                c
            } else if cur_enabled {
                current.unwrap()
            } else {
                enabled[0]
            };
            let label = ctl.parts[chosen].pending.as_ref().map(|p| p.op.label()).unwrap_or_else(|| "start".into());
            if let Some(l) = cfg.prefix_labels.get(k) {
                if k < cfg.prefix.len() && *l != label {
                    ctl.error = Some(format!("divergence while replaying at decision {k}: recorded operation {l}, now {label}"));
                    break;
                }
            }
            res.decisions.push(Decision { enabled: enabled.clone(), current, current_enabled: cur_enabled, chosen, label, hash, cost_before: cost, op_idx: ctl.ops.len() });
            if cur_enabled && Some(chosen) != current {
                cost += 1;
            }
            ctl.advance(chosen);
            current = Some(chosen);
            k += 1;
        }
        res.cost = cost;
    }
    ctl.kill_all();
    watch.done.store(true, Ordering::Relaxed);
    res.stalled = ctl.stalled;
    if watch.hung.load(Ordering::Relaxed) && ctl.error.is_none() && ctl.stalled.is_none() {
        ctl.error = Some(format!("watchdog: no progress for {} ms", cfg.hang_ms));
    }
    for (i, p) in ctl.parts.iter().enumerate() {
        res.parts.push(PartOutcome {
            exit: p.exit,
            signal: p.signal,
            stdout: std::fs::read_to_string(cfg.out_dir.join(format!("{i}.stdout"))).unwrap_or_default(),
            stderr: std::fs::read_to_string(cfg.out_dir.join(format!("{i}.stderr"))).unwrap_or_default(),
            visible_tids: p.vis_tids.len(),
            n_ops: p.n_ops,
            n_sched: p.n_sched,
        });
    }
    res.ops = std::mem::take(&mut ctl.ops);
    res.sessions = std::mem::take(&mut ctl.sessions);
    res.multi_visible = std::mem::take(&mut ctl.multi_visible);
    res.error = ctl.error.take();
    res.wall_ms = t0.elapsed().as_millis() as u64;
    res
}

/// Do two operations conflict (same path / directory entry / lock, one side writing)?
pub fn ops_conflict(a: &Op, b: &Op) -> bool {
    let mut f = Footprint::default();
    f.add(a);
    f.conflicts(b)
}

fn own_paths(o: &Op) -> Vec<&str> {
    let mut v = vec![o.path.as_str()];
    if let Some(p2) = &o.path2 {
        v.push(p2.as_str());
    }
    v
}

fn is_writer(o: &Op) -> bool {
    !matches!(o.kind, OpKind::Stat | OpKind::OpenR | OpKind::OpenDir | OpKind::Read | OpKind::ReadDir)
}

/// A conflict on the operations' OWN paths (same file / lock / directory entry, or a directory
/// listing against a creation/removal in that directory, or an ancestor being created/renamed/
/// removed) - as opposed to the weak "something was created in a directory another process
/// stat'ed" conflicts that the partial-order reduction also (conservatively) honours.
pub fn strong_conflict(a: &Op, b: &Op) -> bool {
    if a.kind.is_lock_op() != b.kind.is_lock_op() {
        return false;
    }
    if a.kind.is_lock_op() {
        return a.path == b.path;
    }
    if !(is_writer(a) || is_writer(b)) {
        return false;
    }
    for pa in own_paths(a) {
        for pb in own_paths(b) {
            if pa == pb {
                return true;
            }
            let sub = |k: OpKind| matches!(k, OpKind::Mkdir | OpKind::Rmdir | OpKind::Rename | OpKind::Link);
            if (sub(a.kind) && pb.starts_with(&format!("{pa}/"))) || (sub(b.kind) && pa.starts_with(&format!("{pb}/"))) {
                return true;
            }
            let listing = |k: OpKind| matches!(k, OpKind::ReadDir | OpKind::OpenDir);
            let names = |o: &Op| matches!(o.kind, OpKind::Unlink | OpKind::Mkdir | OpKind::Rmdir | OpKind::Rename | OpKind::Link) || (o.kind == OpKind::OpenW && o.flags.contains('c'));
            if (listing(a.kind) && names(b) && parent_of(pb) == pa) || (listing(b.kind) && names(a) && parent_of(pa) == pb) {
                return true;
            }
        }
    }
    false
}

/// The pair of operations at which the participants first interfere after the first
/// preemption: (operation of the participant switched to, the latest earlier operation of the
/// preempted participant it conflicts with).
pub fn race_pair(r: &RunResult) -> Option<(Op, Op)> {
    let d = r.decisions.iter().find(|d| d.current_enabled && Some(d.chosen) != d.current)?;
    let pre = d.current?;
    let start = d.op_idx.min(r.ops.len());
    for x in r.ops[start..].iter().filter(|o| o.part == d.chosen) {
        // prefer the earliest earlier operation on exactly the same path (the root of the race),
        // else the latest conflicting one
        let same = r.ops[..start].iter().find(|y| y.part == pre && y.path == x.path && strong_conflict(y, x));
        let any = r.ops[..start].iter().rev().find(|y| y.part == pre && strong_conflict(y, x));
        if let Some(y) = same.or(any) {
            return Some((x.clone(), y.clone()));
        }
    }
    None
}

/// Footprint of participant `i` in a finished run (used on solo runs).
pub fn footprint_of(r: &RunResult, i: usize) -> Footprint {
    let mut f = Footprint::default();
    for op in r.ops.iter().filter(|o| o.part == i) {
        f.add(op);
    }
    f
}

#[derive(Clone, Debug)]
pub struct PartialRead {
    pub reader: usize,
    pub writer: usize,
    pub path: String,
    pub read_idx: usize,
    pub next_mutation_idx: usize,
}

/// Direct oracle: a read of a file while ANOTHER participant has it open for writing and
/// still mutates it afterwards (truncate-then-write in progress, file created but not filled).
pub fn partial_reads(r: &RunResult) -> Vec<PartialRead> {
    let mut out = vec![];
    for (t, op) in r.ops.iter().enumerate() {
        if op.kind != OpKind::Read {
            continue;
        }
        let Some(ino) = op.ino else { continue };
        for s in &r.sessions {
            if s.part == op.part || s.ino != ino || s.open_idx >= t || s.close_at.is_some_and(|c| c <= t) {
                continue;
            }
            if let Some(m) = s.mutations.iter().find(|m| **m > t) {
                out.push(PartialRead { reader: op.part, writer: s.part, path: op.path.clone(), read_idx: t, next_mutation_idx: *m });
            }
        }
    }
    out
}

// ------------------------------------------------------------------------------------------
// exploration: iterative preemption bounding over schedules
// ------------------------------------------------------------------------------------------

pub struct ExploreCfg<'a> {
    pub parts: &'a [PartSpec],
    /// one sandbox root per rayon worker thread (index = rayon::current_thread_index())
    pub roots: &'a [PathBuf],
    /// puts a sandbox root into the scenario's initial state
    pub restore: &'a (dyn Fn(&Path) + Sync),
    pub footprints: &'a [Footprint],
    pub por: bool,
    /// prune preemption points that are equivalent (by independence) to one already run
    pub sleep: bool,
    pub max_bound: u32,
    /// returns true when the wall-clock budget is used up
    pub out_of_budget: &'a (dyn Fn() -> bool + Sync),
    pub unstable: &'a [String],
    pub hang_ms: u64,
    pub stall_ms: u64,
    pub max_decisions: usize,
}

pub struct ExploredRun<T> {
    pub schedule: Vec<u8>,
    pub cost: u32,
    pub n_decisions: usize,
    pub value: T,
}

pub struct ExploreOut<T> {
    pub runs: Vec<ExploredRun<T>>,
    /// distinct (schedule prefix) nodes visited
    pub states: u64,
    /// visible operations executed under control
    pub transitions: u64,
    /// highest preemption bound whose schedules were ALL run (or pruned as equivalent)
    pub bound_completed: Option<u32>,
    pub runs_per_bound: Vec<u64>,
    /// preemption points not run because an equivalent schedule (the preempted operations are
    /// independent of everything the other participants did meanwhile) had been run
    pub pruned_equivalent: u64,
    pub capped: bool,
    pub not_run: u64,
    pub errors: Vec<String>,
    pub max_decisions_seen: usize,
}

struct Trace {
    schedule: Vec<u8>,
    hashes: Vec<u64>,
    ops: Vec<Op>,
    dec: Vec<Decision>,
}

/// Alternatives "switch from participant c to j" at consecutive decisions of one parent run.
struct Chain {
    parent: Option<Arc<Trace>>,
    j: u8,
    cost: u32,
    /// decision indices, ascending
    ks: Vec<usize>,
    next: usize,
    /// alternatives at decisions <= skip_until are equivalent to one already run
    skip_until: Option<usize>,
    /// preempted participant (None: free choice, no pruning)
    c: Option<usize>,
}

pub fn out_dir_of(root: &Path) -> PathBuf {
    let mut s = root.as_os_str().to_os_string();
    s.push(".out");
    PathBuf::from(s)
}

/// A finished operation as it actually behaved: a mutating call that FAILED (mkdir -> EEXIST,
/// unlink -> ENOENT ...) only observed the existence of its path.
fn effective(o: &Op) -> Op {
    let mutating = matches!(o.kind, OpKind::OpenW | OpKind::Trunc | OpKind::Rename | OpKind::Link | OpKind::Unlink | OpKind::Mkdir | OpKind::Rmdir | OpKind::Utime);
    if mutating && o.ret < 0 && o.ret != i64::MIN {
        let mut e = o.clone();
        e.kind = OpKind::Stat;
        e.path2 = None;
        e.flags.clear();
        e
    } else {
        o.clone()
    }
}

/// Last decision t >= k of the parent such that preempting c before decision t gives an
/// execution equivalent to the child (which preempted before decision k).
fn skip_extent(parent: &Trace, k: usize, c: usize, j: usize, child: &RunResult) -> usize {
    let Some(dk) = child.decisions.get(k) else { return k };
    let seg: Vec<&Op> = child.ops[dk.op_idx.min(child.ops.len())..].iter().take_while(|o| o.part != c).collect();
    let resumed = child.ops[dk.op_idx.min(child.ops.len())..].iter().any(|o| o.part == c);
    if !resumed {
        return k;
    }
    let mut fp = Footprint::default();
    for o in &seg {
        fp.add(&effective(o));
        if let (OpKind::Rename | OpKind::Link, true, Some(p2)) = (o.kind, o.ret < 0, &o.path2) {
            // a failed rename also observed its destination
            let mut e = effective(o);
            e.path = p2.clone();
            fp.add(&e);
        }
    }
    let mut t = k;
    loop {
        let Some(nd) = parent.dec.get(t + 1) else { break };
        if nd.current != Some(c) || nd.chosen != c || !nd.enabled.contains(&j) {
            break;
        }
        let lo = parent.dec[t].op_idx;
        let hi = nd.op_idx.min(parent.ops.len());
        if parent.ops[lo..hi].iter().any(|o| fp.conflicts(&effective(o))) {
            break;
        }
        t += 1;
    }
    t
}

pub fn explore<T: Send>(cfg: &ExploreCfg, eval: &(dyn Fn(&Path, &RunResult) -> T + Sync)) -> ExploreOut<T> {
    use rayon::prelude::*;
    let mut out = ExploreOut {
        runs: vec![],
        states: 1,
        transitions: 0,
        bound_completed: None,
        runs_per_bound: vec![],
        pruned_equivalent: 0,
        capped: false,
        not_run: 0,
        errors: vec![],
        max_decisions_seen: 0,
    };
    let width = rayon::current_num_threads().max(1);
    let mut levels: Vec<Vec<Chain>> = (0..=cfg.max_bound).map(|_| vec![]).collect();
    levels[0].push(Chain { parent: None, j: 0, cost: 0, ks: vec![0], next: 0, skip_until: None, c: None });
    for bound in 0..=cfg.max_bound {
        let mut active: Vec<Chain> = std::mem::take(&mut levels[bound as usize]);
        let mut n_this_bound = 0u64;
        let mut complete = true;
        loop {
            // next wave: round-robin over the chains, at most `width` items (at least one per pass)
            let mut wave: Vec<(usize, usize)> = vec![]; // (chain index, k)
            let mut progressed = true;
            while wave.len() < width && progressed {
                progressed = false;
                for (ci, ch) in active.iter_mut().enumerate() {
                    while ch.next < ch.ks.len() && ch.skip_until.is_some_and(|s| ch.ks[ch.next] <= s) {
                        ch.next += 1;
                        out.pruned_equivalent += 1;
                    }
                    if ch.next < ch.ks.len() && wave.len() < width {
                        wave.push((ci, ch.ks[ch.next]));
                        ch.next += 1;
                        progressed = true;
                    }
                }
            }
            if wave.is_empty() {
                break;
            }
            struct Done<T> {
                run: Option<ExploredRun<T>>,
                trace: Option<Arc<Trace>>,
                new_nodes: u64,
                transitions: u64,
                error: Option<String>,
                skip: Option<usize>,
                m: usize,
            }
            let active_ref = &active;
            let results: Vec<Done<T>> = wave
                .par_iter()
                .map(|&(ci, k)| {
                    let ch = &active_ref[ci];
                    if (cfg.out_of_budget)() {
                        return Done { run: None, trace: None, new_nodes: 0, transitions: 0, error: None, skip: None, m: 0 };
                    }
                    let widx = rayon::current_thread_index().unwrap_or(0).min(cfg.roots.len() - 1);
                    let root = &cfg.roots[widx];
                    (cfg.restore)(root);
                    let (prefix, hashes): (Vec<u8>, Vec<u64>) = match &ch.parent {
                        None => (vec![], vec![]),
                        Some(t) => {
                            let mut p = t.schedule[..k].to_vec();
                            p.push(ch.j);
                            (p, t.hashes[..=k].to_vec())
                        }
                    };
                    let odir = out_dir_of(root);
                    let r = run_schedule(&RunCfg {
                        root,
                        out_dir: &odir,
                        parts: cfg.parts,
                        footprints: cfg.footprints,
                        prefix: &prefix,
                        prefix_hashes: &hashes,
                        prefix_labels: &[],
                        por: cfg.por,
                        unstable: cfg.unstable,
                        hang_ms: cfg.hang_ms,
                        stall_ms: cfg.stall_ms,
                        max_decisions: cfg.max_decisions,
                    });
                    let m = prefix.len();
                    let value = eval(root, &r);
                    let schedule = r.schedule();
                    let skip = match (&ch.parent, ch.c) {
                        (Some(p), Some(c)) if cfg.sleep && r.error.is_none() && r.deadlock.is_none() && r.stalled.is_none() => Some(skip_extent(p, k, c, ch.j as usize, &r)),
                        _ => None,
                    };
                    Done {
                        new_nodes: r.decisions.len().saturating_sub(m) as u64 + if m > 0 { 1 } else { 0 },
                        transitions: r.ops.len() as u64,
                        error: r.error.clone().map(|e| format!("schedule [{}]: {e}", rle(&schedule))),
                        run: Some(ExploredRun { schedule: schedule.clone(), cost: ch.cost, n_decisions: r.decisions.len(), value }),
                        trace: if r.error.is_none() { Some(Arc::new(Trace { schedule, hashes: r.hashes(), ops: r.ops, dec: r.decisions })) } else { None },
                        skip,
                        m,
                    }
                })
                .collect();
            for (d, &(ci, _k)) in results.into_iter().zip(&wave) {
                match d.run {
                    None => {
                        out.capped = true;
                        out.not_run += 1;
                        complete = false;
                    }
                    Some(run) => {
                        n_this_bound += 1;
                        out.states += d.new_nodes;
                        out.transitions += d.transitions;
                        out.max_decisions_seen = out.max_decisions_seen.max(run.n_decisions);
                        if let Some(e) = d.error {
                            if out.errors.len() < 10 {
                                out.errors.push(e);
                            }
                        }
                        if let Some(s) = d.skip {
                            let ch = &mut active[ci];
                            ch.skip_until = Some(ch.skip_until.map_or(s, |x| x.max(s)));
                        }
                        if let Some(tr) = d.trace {
                            // alternatives of this run, grouped into chains
                            let mut new_chains: Vec<Chain> = vec![];
                            for (k, dcs) in tr.dec.iter().enumerate().skip(d.m) {
                                for &j in &dcs.enabled {
                                    if j == dcs.chosen {
                                        continue;
                                    }
                                    let preempt = dcs.current_enabled && Some(j) != dcs.current;
                                    let c = dcs.cost_before + preempt as u32;
                                    if c > cfg.max_bound {
                                        continue;
                                    }
                                    let cpart = if preempt && dcs.chosen == dcs.current.unwrap() { dcs.current } else { None };
                                    let extend = new_chains.iter_mut().rev().find(|ch| ch.j == j as u8 && ch.cost == c && ch.c == cpart && cpart.is_some() && *ch.ks.last().unwrap() + 1 == k);
                                    match extend {
                                        Some(ch) => ch.ks.push(k),
                                        None => new_chains.push(Chain { parent: Some(tr.clone()), j: j as u8, cost: c, ks: vec![k], next: 0, skip_until: None, c: cpart }),
                                    }
                                }
                            }
                            for ch in new_chains {
                                if ch.cost == bound {
                                    active.push(ch);
                                } else {
                                    levels[ch.cost as usize].push(ch);
                                }
                            }
                        }
                        out.runs.push(run);
                    }
                }
            }
            if out.capped {
                break;
            }
        }
        out.runs_per_bound.push(n_this_bound);
        if complete && !out.capped {
            out.bound_completed = Some(bound);
        } else {
            for ch in &active {
                out.not_run += (ch.ks.len() - ch.next) as u64;
            }
            for l in levels.iter().skip(bound as usize + 1) {
                out.not_run += l.iter().map(|c| c.ks.len() as u64).sum::<u64>();
            }
            break;
        }
    }
    out
}

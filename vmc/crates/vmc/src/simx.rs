//! simx — thin, shared access layer to the real `veryl_simulator` for the E2 machines:
//! analysis of a DF member, engine configurations, the in-process `VerylSim` machine, canonical
//! observation strings and structural fingerprints of the built IR.
//!
//! Thread rule: parser/analyzer/simulator intern strings in thread-local tables, so everything
//! that touches one design (analysis, every build, every step) must happen on ONE thread
//! (`core::run_isolated`).

#![allow(dead_code)]

use super::e2::{Machine, StepOut};
use super::gen_df::Design;
use veryl_analyzer::ir as air;
use veryl_analyzer::{Analyzer, Context, symbol_table};
use veryl_metadata::Metadata;
use veryl_parser::Parser;
use veryl_simulator::ir as sir;
use veryl_simulator::ir::{Event, ModuleVariables, Value};
use veryl_simulator::{Config, Simulator, output_buffer};

pub const STACK: usize = 512 * 1024 * 1024;

/// Analyses `code` as project `prj`. Ok only when parser and analyzer report nothing at all.
pub fn analyze(code: &str) -> Result<air::Ir, String> {
    symbol_table::clear();
    let metadata = Metadata::create_default("prj").map_err(|e| format!("metadata: {e}"))?;
    let parser = Parser::parse(code, &"").map_err(|e| format!("parse error: {e}"))?;
    let analyzer = Analyzer::new(&metadata);
    let mut context = Context::default();
    let mut errors = vec![];
    let mut ir = air::Ir::default();
    errors.append(&mut analyzer.analyze_pass1("prj", &parser.veryl));
    errors.append(&mut Analyzer::analyze_post_pass1());
    errors.append(&mut analyzer.analyze_pass2(&parser.veryl, &mut context, Some(&mut ir)));
    errors.append(&mut Analyzer::analyze_post_pass2(&ir));
    if !errors.is_empty() {
        let mut kinds: Vec<String> = errors
            .iter()
            .map(|e| {
                let d = format!("{e:?}");
                let k = d.split(|c: char| !c.is_alphanumeric()).next().unwrap_or("?").to_string();
                format!("{k}: {e}")
            })
            .collect();
        kinds.sort();
        kinds.dedup();
        return Err(format!("analyzer diagnostics: {}", kinds.join(" | ")));
    }
    Ok(ir)
}

/// Short stable engine name for a `Config`.
pub fn config_name(c: &Config) -> String {
    format!(
        "{}{}{}{}",
        if c.aot_c {
            if c.aot_c_async { "cc-async" } else { "cc" }
        } else if c.use_jit {
            "jit"
        } else {
            "interp"
        },
        if c.use_4state { "+4st" } else { "" },
        if c.disable_ff_opt { "+noffopt" } else { "" },
        if c.aot_c && !c.aot_c_event { "+noevent" } else { "" },
    )
}

/// Parses the names produced by `config_name`.
pub fn config_from_name(name: &str) -> Option<Config> {
    let mut parts = name.split('+');
    let base = parts.next()?;
    let mut c = Config::default();
    match base {
        "interp" => {}
        "jit" => c.use_jit = true,
        "cc" | "cc-async" => {
            c.use_jit = true;
            c.aot_c = true;
            c.aot_c_event = true;
            c.aot_c_async = base == "cc-async";
        }
        _ => return None,
    }
    for p in parts {
        match p {
            "4st" => c.use_4state = true,
            "noffopt" => c.disable_ff_opt = true,
            "noevent" => c.aot_c_event = false,
            _ => return None,
        }
    }
    Some(c)
}

/// `Config::all()` (interpreter, Cranelift JIT, cc; x disable_ff_opt; 4-state for the first two).
pub fn all_configs(with_cc: bool) -> Vec<Config> {
    Config::all().into_iter().filter(|c| with_cc || !c.aot_c).collect()
}

pub fn value_str(v: &Value) -> String {
    let p = v.payload().to_str_radix(16);
    let m = v.mask_xz();
    if m.bits() == 0 { p } else { format!("{p}/{}", m.to_str_radix(16)) }
}

fn escape_text(t: &str) -> String {
    let mut s = String::with_capacity(t.len());
    for c in t.chars() {
        match c {
            '\n' => s.push_str("\\n"),
            '\\' => s.push_str("\\\\"),
            '\t' => s.push_str("\\t"),
            '\x1e' => s.push_str("\\e"),
            c => s.push(c),
        }
    }
    s
}

/// Structural fingerprint of a built IR (vacuity guards: did a pass change anything?).
#[derive(Clone, Debug, Default, PartialEq, Eq)]
pub struct IrShape {
    pub comb_stmts: usize,
    pub comb_compiled: usize,
    pub event_stmts: usize,
    pub comb_bytes: usize,
    pub ff_bytes: usize,
    pub passes: usize,
    pub fused: usize,
    pub cone_segments: usize,
    pub whole_comb: bool,
    pub whole_events: usize,
    /// blake3 of the sorted (path, storage kind, offset) table — changes under relayout.
    pub layout_hash: String,
}

impl IrShape {
    pub fn to_line(&self) -> String {
        format!(
            "comb_stmts={} comb_compiled={} event_stmts={} comb_bytes={} ff_bytes={} passes={} fused={} cone_segments={} whole_comb={} whole_events={} layout={}",
            self.comb_stmts,
            self.comb_compiled,
            self.event_stmts,
            self.comb_bytes,
            self.ff_bytes,
            self.passes,
            self.fused,
            self.cone_segments,
            self.whole_comb as u8,
            self.whole_events,
            self.layout_hash
        )
    }
}

pub fn ir_shape(ir: &sir::Ir) -> IrShape {
    let (total, compiled, _) = ir.comb_stmt_count();
    let mut rows: Vec<String> = vec![];
    fn walk(m: &ModuleVariables, prefix: &str, comb: (usize, usize), ff: (usize, usize), rows: &mut Vec<String>) {
        let here = format!("{prefix}{}.", m.name);
        for v in m.variables.values() {
            for (i, &p) in v.current_values.iter().enumerate() {
                let p = p as usize;
                let loc = if p >= comb.0 && p < comb.0 + comb.1 {
                    format!("c{}", p - comb.0)
                } else if p >= ff.0 && p < ff.0 + ff.1 {
                    format!("f{}", p - ff.0)
                } else {
                    "x".to_string()
                };
                rows.push(format!("{here}{}[{i}]@{loc}", v.path));
            }
        }
        for c in &m.children {
            walk(c, &here, comb, ff, rows);
        }
    }
    walk(
        &ir.module_variables,
        "",
        (ir.comb_values.as_ptr() as usize, ir.comb_values.len()),
        (ir.ff_values.as_ptr() as usize, ir.ff_values.len()),
        &mut rows,
    );
    rows.sort();
    IrShape {
        comb_stmts: total,
        comb_compiled: compiled,
        event_stmts: ir.event_statements.values().map(|v| v.len()).sum(),
        comb_bytes: ir.comb_values.len(),
        ff_bytes: ir.ff_values.len(),
        passes: ir.required_comb_passes,
        fused: ir.fused_comb_offsets.len(),
        cone_segments: ir.cone_segments.len(),
        whole_comb: ir.whole_comb.is_some(),
        whole_events: ir.whole_events.len(),
        layout_hash: crate::core::hash_hex(rows.join("\n").as_bytes()),
    }
}

/// The in-process machine: a real `veryl_simulator::Simulator` for one design and one `Config`.
pub struct VerylSim {
    pub name: String,
    pub sim: Simulator,
    pub four_state: bool,
    clk: Event,
    rst: Event,
    inputs: Vec<(String, usize)>,
    outputs: Vec<String>,
    /// Resolved output storage (pointer, native bytes, width) — exactly what `Simulator::get` reads.
    out_slots: Vec<(*const u8, usize, u32)>,
    /// Every declared variable element (pointer, span), in hierarchical-path order.
    key_slots: Vec<(*const u8, usize)>,
    pub shape: IrShape,
    /// full stimulus history since construction: u32::MAX = reset, else letter
    pub history: Vec<u32>,
    keep_history: bool,
}

impl VerylSim {
    /// Builds the simulator IR for `d.top` with `config`. Must run on the analysis thread.
    pub fn build(ir: &air::Ir, d: &Design, config: &Config) -> Result<VerylSim, String> {
        let sim_ir = sir::build_ir(ir, d.top.as_str().into(), config).map_err(|e| format!("build_ir: {e}"))?;
        Self::from_ir(sim_ir, d, config_name(config), config.use_4state)
    }

    pub fn from_ir(sim_ir: sir::Ir, d: &Design, name: String, four_state: bool) -> Result<VerylSim, String> {
        use std::str::FromStr;
        let shape = ir_shape(&sim_ir);
        let sim = Simulator::new(sim_ir, None);
        let clk = sim.get_clock(&d.clk).ok_or_else(|| format!("no clock port {}", d.clk))?;
        let rst = sim.get_reset(&d.rst).ok_or_else(|| format!("no reset port {}", d.rst))?;
        let mut out_slots = vec![];
        for p in &d.outputs {
            let path = sir::VarPath::from_str(&p.name).map_err(|_| format!("bad port name {}", p.name))?;
            let id = sim.ir.ports.get(&path).ok_or_else(|| format!("no output port {}", p.name))?;
            let v = sim.ir.module_variables.variables.get(id).ok_or_else(|| format!("no variable for port {}", p.name))?;
            out_slots.push((v.current_values[0] as *const u8, v.native_bytes, v.width as u32));
        }
        let four = sim.ir.use_4state;
        let mut rows: Vec<(String, usize, *const u8, usize)> = vec![];
        fn walk(m: &ModuleVariables, prefix: &str, four: bool, rows: &mut Vec<(String, usize, *const u8, usize)>) {
            let here = format!("{prefix}{}.", m.name);
            for v in m.variables.values() {
                let span = v.native_bytes * if four { 2 } else { 1 };
                for (i, &p) in v.current_values.iter().enumerate() {
                    if !p.is_null() {
                        rows.push((format!("{here}{}", v.path), i, p as *const u8, span));
                    }
                }
            }
            for c in &m.children {
                walk(c, &here, four, rows);
            }
        }
        walk(&sim.ir.module_variables, "", four, &mut rows);
        rows.sort();
        let key_slots = rows.into_iter().map(|(_, _, p, s)| (p, s)).collect();
        Ok(VerylSim {
            name,
            sim,
            four_state,
            clk,
            rst,
            inputs: d.inputs.iter().map(|p| (p.name.clone(), p.width as usize)).collect(),
            outputs: d.outputs.iter().map(|p| p.name.clone()).collect(),
            out_slots,
            key_slots,
            shape,
            history: vec![],
            keep_history: false,
        })
    }

    pub fn keep_history(&mut self, on: bool) {
        self.keep_history = on;
    }

    fn set_inputs(&mut self, letter: u32) {
        let mut sh = 0;
        for (name, w) in &self.inputs {
            let v = ((letter >> sh) as u64) & ((1u64 << w) - 1);
            self.sim.set(name, Value::new(v, *w, false));
            sh += *w as u32;
        }
    }

    /// Observation through the public `Simulator::get` (slow path, used once per path as a
    /// cross-check of the resolved-slot fast path).
    fn observe_via_get(&mut self) -> String {
        let mut s = String::new();
        for (i, name) in self.outputs.iter().enumerate() {
            if i > 0 {
                s.push(',');
            }
            match self.sim.get(name) {
                Some(v) => s.push_str(&value_str(&v)),
                None => s.push('?'),
            }
        }
        s
    }

    fn observe(&mut self, check: bool) -> String {
        use std::fmt::Write as _;
        self.sim.ensure_comb_updated();
        let four = self.sim.ir.use_4state;
        let mut s = String::with_capacity(8 * self.out_slots.len());
        for (i, &(p, nb, w)) in self.out_slots.iter().enumerate() {
            if i > 0 {
                s.push(',');
            }
            // SAFETY: same read as `Simulator::get` performs on the port variable's storage.
            let v = unsafe { sir::read_native_value(p, nb, four, w, false) };
            if w <= 128 {
                let m = v.mask_xz_u128();
                if m == 0 {
                    let _ = write!(s, "{:x}", v.payload_u128());
                } else {
                    let _ = write!(s, "{:x}/{:x}", v.payload_u128(), m);
                }
            } else {
                s.push_str(&value_str(&v));
            }
        }
        if check {
            let slow = self.observe_via_get();
            assert_eq!(slow, s, "harness: fast observation differs from Simulator::get");
        }
        let text = output_buffer::take();
        if !text.is_empty() {
            s.push('|');
            s.push_str(&escape_text(&text));
        }
        s
    }

    pub fn do_reset(&mut self) -> String {
        if self.keep_history {
            self.history.push(u32::MAX);
        }
        output_buffer::enable();
        self.set_inputs(0);
        let (c, r) = (self.clk.clone(), self.rst.clone());
        self.sim.step_reset(&c, &r);
        self.observe(true)
    }

    pub fn do_step(&mut self, letter: u32) -> String {
        if self.keep_history {
            self.history.push(letter);
        }
        output_buffer::enable();
        self.set_inputs(letter);
        let c = self.clk.clone();
        self.sim.step(&c);
        self.observe(false)
    }

    /// All declared variables (every element, raw storage bytes), in hierarchical-path order.
    pub fn key(&mut self) -> Vec<u8> {
        self.sim.ensure_comb_updated();
        let mut h = blake3::Hasher::new();
        for &(p, span) in &self.key_slots {
            // SAFETY: element storage is `native_bytes` payload (+ mask in 4-state) inside
            // buffers owned by the Ir, which outlives this call.
            h.update(unsafe { std::slice::from_raw_parts(p, span) });
        }
        h.finalize().as_bytes()[..16].to_vec()
    }
}

fn guarded<R>(f: impl FnOnce() -> R) -> Result<R, String> {
    match std::panic::catch_unwind(std::panic::AssertUnwindSafe(f)) {
        Ok(r) => Ok(r),
        Err(p) => Err(format!(
            "panic: {} at {}",
            crate::core::panic_message(p),
            crate::core::take_panic_loc().unwrap_or_else(|| "?".into())
        )),
    }
}

impl Machine for VerylSim {
    fn name(&self) -> String {
        self.name.clone()
    }
    fn four_state(&self) -> bool {
        self.four_state
    }
    fn run_paths(&mut self, paths: &[Vec<u32>]) -> Result<Vec<StepOut>, String> {
        guarded(|| {
            let mut out = Vec::with_capacity(paths.len());
            for p in paths {
                let mut th = blake3::Hasher::new();
                let mut last = self.do_reset();
                th.update(last.as_bytes());
                for &l in p {
                    last = self.do_step(l);
                    th.update(&[0xff]);
                    th.update(last.as_bytes());
                }
                let key = self.key();
                out.push(StepOut { obs: last, key, trace: th.finalize().as_bytes()[..8].to_vec() });
            }
            out
        })
    }
    fn run_trace(&mut self, path: &[u32]) -> Result<Vec<String>, String> {
        guarded(|| {
            let mut v = vec![self.do_reset()];
            for &l in path {
                v.push(self.do_step(l));
            }
            v
        })
    }
    fn run_long(&mut self, period: &[u32], steps: usize) -> Result<Vec<u8>, String> {
        guarded(|| {
            let mut th = blake3::Hasher::new();
            th.update(self.do_reset().as_bytes());
            for i in 0..steps {
                let o = self.do_step(period[i % period.len()]);
                th.update(&[0xff]);
                th.update(o.as_bytes());
            }
            th.finalize().as_bytes()[..16].to_vec()
        })
    }
}

//! Shared driver for checks that run the real `veryl` binary on scratch projects.
//!
//! Every CLI invocation runs in a private mount namespace in which the worker's own scratch
//! directory is bind-mounted on one canonical path (`CANON`). veryl embeds absolute paths in the
//! cache manifest, the fragment blobs (whose file names are content hashes) and `info.toml`, so a
//! directory snapshot is only meaningful at the path it was produced at; with the canonical mount
//! every worker sees the same absolute path and snapshots are freely relocatable between workers.

use std::collections::BTreeMap;
use std::os::unix::process::CommandExt;
use std::path::{Path, PathBuf};
use std::process::{Command, Stdio};
use std::time::{Duration, SystemTime, UNIX_EPOCH};

pub const CANON: &str = "/dev/shm/vmc-canon";

/// A worker directory. Layout: `<root>/p` project, `<root>/home`, `<root>/cache` (XDG cache).
#[derive(Clone, Debug)]
pub struct Sandbox {
    pub root: PathBuf,
}

#[derive(Clone, Debug)]
pub struct RunOut {
    pub code: i32,
    /// Some(signal) if killed by a signal
    pub signal: Option<i32>,
    pub stdout: String,
    pub stderr: String,
    pub timed_out: bool,
}

impl RunOut {
    pub fn panicked(&self) -> bool {
        self.code == 101 || self.stderr.contains("panicked at") || matches!(self.signal, Some(6) | Some(11) | Some(4) | Some(7))
    }
}

pub fn ensure_canon() -> Result<(), String> {
    std::fs::create_dir_all(CANON).map_err(|e| format!("cannot create {CANON}: {e}"))
}

impl Sandbox {
    pub fn new(root: &Path) -> Sandbox {
        let _ = std::fs::remove_dir_all(root);
        std::fs::create_dir_all(root.join("p")).unwrap();
        std::fs::create_dir_all(root.join("home")).unwrap();
        std::fs::create_dir_all(root.join("cache")).unwrap();
        let _ = ensure_canon();
        Sandbox { root: root.to_path_buf() }
    }
    /// Project directory as the harness sees it.
    pub fn proj(&self) -> PathBuf {
        self.root.join("p")
    }
    /// Project directory as veryl sees it.
    pub fn canon_proj() -> PathBuf {
        Path::new(CANON).join("p")
    }

    fn base_command(&self, program: &Path, cwd_rel: &str) -> Command {
        let mut cmd = Command::new(program);
        let src = std::ffi::CString::new(self.root.to_str().unwrap()).unwrap();
        let dst = std::ffi::CString::new(CANON).unwrap();
        let cwd = std::ffi::CString::new(format!("{CANON}/{cwd_rel}")).unwrap();
        let slash = std::ffi::CString::new("/").unwrap();
        unsafe {
            cmd.pre_exec(move || {
                if libc::unshare(libc::CLONE_NEWNS) != 0 {
                    return Err(std::io::Error::last_os_error());
                }
                if libc::mount(
                    std::ptr::null(),
                    slash.as_ptr(),
                    std::ptr::null(),
                    libc::MS_REC | libc::MS_PRIVATE,
                    std::ptr::null(),
                ) != 0
                {
                    return Err(std::io::Error::last_os_error());
                }
                if libc::mount(
                    src.as_ptr(),
                    dst.as_ptr(),
                    std::ptr::null(),
                    libc::MS_BIND,
                    std::ptr::null(),
                ) != 0
                {
                    return Err(std::io::Error::last_os_error());
                }
                if libc::chdir(cwd.as_ptr()) != 0 {
                    return Err(std::io::Error::last_os_error());
                }
                Ok(())
            });
        }
        cmd.env_clear();
        cmd.env("PATH", std::env::var("PATH").unwrap_or_else(|_| "/usr/bin:/bin".into()));
        cmd.env("HOME", format!("{CANON}/home"));
        cmd.env("XDG_CACHE_HOME", format!("{CANON}/cache"));
        cmd.env("NO_COLOR", "1");
        cmd.env("TERM", "dumb");
        cmd
    }

    /// Runs `veryl <args>` with cwd = project dir (canonical path).
    pub fn veryl(&self, args: &[&str]) -> RunOut {
        self.veryl_env(args, &[])
    }

    pub fn veryl_env(&self, args: &[&str], env: &[(&str, &str)]) -> RunOut {
        let bin = crate::core::bin_dir().join("veryl");
        let mut cmd = self.base_command(&bin, "p");
        cmd.args(args);
        for (k, v) in env {
            cmd.env(k, v);
        }
        run_with_timeout(cmd, Duration::from_secs(120))
    }

    /// Runs an arbitrary program inside the namespace (e.g. `strace … veryl build`).
    pub fn run_program(&self, program: &Path, args: &[&str], env: &[(&str, &str)], timeout: Duration) -> RunOut {
        let mut cmd = self.base_command(program, "p");
        cmd.args(args);
        for (k, v) in env {
            cmd.env(k, v);
        }
        run_with_timeout(cmd, timeout)
    }

    // ----------------------------------------------------------------- file helpers
    pub fn write(&self, rel: &str, content: &str) {
        let p = self.proj().join(rel);
        if let Some(parent) = p.parent() {
            std::fs::create_dir_all(parent).unwrap();
        }
        std::fs::write(&p, content).unwrap();
        // mtime from the fine-grained clock: strictly after every stamp of earlier builds
        set_mtime(&p, SystemTime::now());
    }
    pub fn write_old(&self, rel: &str, content: &str) {
        let p = self.proj().join(rel);
        if let Some(parent) = p.parent() {
            std::fs::create_dir_all(parent).unwrap();
        }
        std::fs::write(&p, content).unwrap();
        set_mtime(&p, UNIX_EPOCH + Duration::from_secs(1_000_000_000)); // 2001-09-09
    }
    pub fn touch(&self, rel: &str) {
        let p = self.proj().join(rel);
        if p.exists() {
            set_mtime(&p, SystemTime::now());
        }
    }
    pub fn remove(&self, rel: &str) {
        let _ = std::fs::remove_file(self.proj().join(rel));
    }
    pub fn rename(&self, from: &str, to: &str) {
        let _ = std::fs::rename(self.proj().join(from), self.proj().join(to));
    }
    pub fn read(&self, rel: &str) -> Option<String> {
        std::fs::read_to_string(self.proj().join(rel)).ok()
    }
    pub fn exists(&self, rel: &str) -> bool {
        self.proj().join(rel).exists()
    }
}

pub fn set_mtime(p: &Path, t: SystemTime) {
    if let Ok(f) = std::fs::OpenOptions::new().write(true).open(p) {
        let _ = f.set_modified(t);
    }
}

fn run_with_timeout(mut cmd: Command, timeout: Duration) -> RunOut {
    use std::io::Read;
    cmd.stdin(Stdio::null()).stdout(Stdio::piped()).stderr(Stdio::piped());
    let mut child = match cmd.spawn() {
        Ok(c) => c,
        Err(e) => {
            return RunOut {
                code: -1,
                signal: None,
                stdout: String::new(),
                stderr: format!("spawn failed: {e}"),
                timed_out: false,
            };
        }
    };
    let mut so = child.stdout.take().unwrap();
    let mut se = child.stderr.take().unwrap();
    let t1 = std::thread::spawn(move || {
        let mut s = Vec::new();
        let _ = so.read_to_end(&mut s);
        String::from_utf8_lossy(&s).to_string()
    });
    let t2 = std::thread::spawn(move || {
        let mut s = Vec::new();
        let _ = se.read_to_end(&mut s);
        String::from_utf8_lossy(&s).to_string()
    });
    let start = std::time::Instant::now();
    let mut timed_out = false;
    let status = loop {
        match child.try_wait() {
            Ok(Some(st)) => break Some(st),
            Ok(None) => {
                if start.elapsed() > timeout {
                    let _ = child.kill();
                    timed_out = true;
                    break child.wait().ok();
                }
                std::thread::sleep(Duration::from_millis(2));
            }
            Err(_) => break None,
        }
    };
    let stdout = t1.join().unwrap_or_default();
    let stderr = t2.join().unwrap_or_default();
    use std::os::unix::process::ExitStatusExt;
    let (code, signal) = match status {
        Some(st) => (st.code().unwrap_or(-1), st.signal()),
        None => (-1, None),
    };
    RunOut { code, signal, stdout, stderr, timed_out }
}

// --------------------------------------------------------------------- snapshots

/// Full snapshot of a sandbox (project incl. `.build`, home, cache) with mtimes.
#[derive(Clone, Debug, Default)]
pub struct Snap {
    pub files: BTreeMap<String, (Vec<u8>, SystemTime)>,
    pub dirs: Vec<String>,
}

pub fn snapshot(root: &Path) -> Snap {
    let mut s = Snap::default();
    for e in walkdir::WalkDir::new(root).sort_by_file_name().into_iter().flatten() {
        let rel = e.path().strip_prefix(root).unwrap().to_string_lossy().to_string();
        if rel.is_empty() {
            continue;
        }
        if e.file_type().is_dir() {
            s.dirs.push(rel);
        } else if e.file_type().is_file() {
            if let Ok(data) = std::fs::read(e.path()) {
                let mt = e.metadata().ok().and_then(|m| m.modified().ok()).unwrap_or(UNIX_EPOCH);
                s.files.insert(rel, (data, mt));
            }
        }
    }
    s
}

pub fn restore(root: &Path, s: &Snap) {
    let _ = std::fs::remove_dir_all(root);
    std::fs::create_dir_all(root).unwrap();
    for d in &s.dirs {
        let _ = std::fs::create_dir_all(root.join(d));
    }
    for (rel, (data, mt)) in &s.files {
        let p = root.join(rel);
        if let Some(parent) = p.parent() {
            let _ = std::fs::create_dir_all(parent);
        }
        std::fs::write(&p, data).unwrap();
        set_mtime(&p, *mt);
    }
}

// --------------------------------------------------------------------- observations

/// Splits veryl's stderr into diagnostic blocks (sorted multiset). Log lines (`[INFO ]` …) are
/// dropped. A block starts at a line beginning with `Error:`, `Warning:` or `Advice:`.
pub fn diag_blocks(stderr: &str) -> Vec<String> {
    let mut blocks: Vec<String> = vec![];
    let mut cur: Option<String> = None;
    for line in stderr.lines() {
        let l = line.trim_end();
        if l.starts_with("[INFO ]") || l.starts_with("[WARN ]") || l.starts_with("[DEBUG]") || l.starts_with("[TRACE]") {
            continue;
        }
        let is_head = l.starts_with("Error:") || l.starts_with("Warning:") || l.starts_with("Advice:");
        if is_head {
            if let Some(c) = cur.take() {
                blocks.push(c);
            }
            cur = Some(String::new());
        }
        if l.is_empty() {
            continue;
        }
        match cur.as_mut() {
            Some(c) => {
                c.push_str(l);
                c.push('\n');
            }
            None => {
                cur = Some(format!("{l}\n"));
            }
        }
    }
    if let Some(c) = cur.take() {
        blocks.push(c);
    }
    blocks.sort();
    blocks
}

/// Files of the project outside `.build` and outside the given source dirs: the outputs.
pub fn output_tree(proj: &Path, exclude_prefixes: &[&str]) -> BTreeMap<String, String> {
    let mut out = BTreeMap::new();
    for e in walkdir::WalkDir::new(proj).sort_by_file_name().into_iter().flatten() {
        if !e.file_type().is_file() {
            continue;
        }
        let rel = e.path().strip_prefix(proj).unwrap().to_string_lossy().to_string();
        if rel.starts_with(".build") || exclude_prefixes.iter().any(|p| rel.starts_with(p)) {
            continue;
        }
        let data = std::fs::read(e.path()).unwrap_or_default();
        out.insert(rel, crate::core::hash_hex(&data));
    }
    out
}

pub fn systime_secs(t: SystemTime) -> f64 {
    t.duration_since(UNIX_EPOCH).map(|d| d.as_secs_f64()).unwrap_or(0.0)
}

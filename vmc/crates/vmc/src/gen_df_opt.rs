//! DF part: `opt-shapes` — wide-but-shallow-state designs sized to the activation thresholds of
//! the simulator's optimisation passes (read from /repo/crates/simulator/src/ir/opt/*.rs):
//!
//! * cone gate: a NON-ROOT module instance subtree with >= 300 comb statements
//!   (`MIN_CONE_STMTS`), contiguous runs >= 64 (`MIN_SEGMENT_STMTS`), clustering re-sort from
//!   5 000 statements (`CLUSTER_MIN_STMTS`), auto-off after 1 024 dirty settles
//!   (`AUTO_OFF_STREAK`);
//! * version split LUT mode: >= 8 arms (`LUT_MIN_ARMS`), <= 8 leaves, <= 4096 table bits;
//! * lane merge: >= 16 identical ops (`VERYL_LANE_MERGE_MIN_OPS` default 16);
//! * switch lowering (Cranelift br_table): Eq-const chain with >= 4 arms;
//! * cond hoist: `if cond { $display }` in an event block;
//! * comb fusion / dead-var DCE / load cache: chains, dead temporaries, repeated loads.
//!
//! All shapes keep the reachable state space tiny (a 2-4 bit input and a 2-4 bit register) so the
//! E2 product exploration stays exhaustive.

use super::{B, Design, Scope};

fn ff(target: &str, reset: &str, e: &str) -> String {
    format!(
        "always_ff {{\n    if_reset {{\n        {target} = {reset};\n    }} else {{\n        {target} = {e};\n    }}\n}}"
    )
}

/// Sub-module with `N` replicated comb slices over a 4-bit port `p` (read through part selects)
/// and a 2-bit port `s`, XOR-reduced to 4 bits.
fn slices_module(name: &str) -> String {
    format!(
        r#"module {name} #(
    param N: u32 = 70,
) (
    p: input logic<4>,
    s: input logic<2>,
    y: output logic<4>,
) {{
    var u: logic<4> [N];
    var t: logic<4> [N];
    for i in 0..N :g {{
        if i % 4 == 0 :k0 {{
            assign u[i] = (p + (i % 16)) ^ {{s, p[1:0]}};
        }} else if i % 4 == 1 :k1 {{
            assign u[i] = {{p[3:2], s}} + ((i * 7) % 16);
        }} else if i % 4 == 2 :k2 {{
            assign u[i] = if p[i % 4] ? {{s, s}} >> (i % 3) : p ^ ((i * 5) % 16);
        }} else :k3 {{
            assign u[i] = (p & ((i * 3) % 16)) | {{2'b0, s}};
        }}
        assign t[i] = u[i] + u[(i + 1) % N];
    }}
    always_comb {{
        y = 0;
        for i in 0..N {{
            y = y ^ t[i];
        }}
    }}
}}
"#
    )
}

pub fn gen_opt_shapes(out: &mut Vec<Design>, scope: Scope) {
    // ---- flat replicated slices (comb fusion / DCE / layout mass) ------------------------
    for n in [70u32, 320] {
        out.push(
            B::new("opt", format!("opt/slices/flat{n}"))
                .core(true)
                .tag("comb_fusion")
                .tag("comb_layout")
                .inp("a", 2, false)
                .inp("b", 2, false)
                .out("y", 4, false)
                .out("q", 2, false)
                .pre(&slices_module("Slices"))
                .l("var r: logic<2>;")
                .l(&ff("r", "0", "r + b"))
                .l(&format!("inst s0: Slices #(\n    N: {n},\n) (\n    p: {{a, r}},\n    s: b,\n    y,\n);"))
                .l(&ff("q", "0", "q ^ y"))
                .finish(),
        );
    }
    // ---- cone gate: hot and cold sub-instances ---------------------------------------------
    let mut cone_ns = vec![320u32];
    if scope == Scope::Full {
        cone_ns.push(2700);
    }
    for n in cone_ns {
        out.push(
            B::new("opt", format!("opt/cone/hotcold{n}"))
                .core(n == 320)
                .tag("cone_gate")
                .inp("a", 2, false)
                .inp("b", 2, false)
                .out("y0", 4, false)
                .out("y1", 4, false)
                .out("q", 2, false)
                .pre(&slices_module("Slices"))
                .l("var r: logic<2>;")
                .l("always_ff {\n    if_reset {\n        r = 0;\n    } else if a == 2'd3 {\n        r = r + b;\n    }\n}")
                .l(&format!("inst hot: Slices #(\n    N: {n},\n) (\n    p: {{a, b}},\n    s: r,\n    y: y0,\n);"))
                .l(&format!("inst cold: Slices #(\n    N: {n},\n) (\n    p: {{2'b01, r}},\n    s: 2'd2,\n    y: y1,\n);"))
                .l(&ff("q", "0", "y0 ^ y1"))
                .finish(),
        );
    }
    // cone whose only changing input is a part select of a wider parent signal
    out.push(
        B::new("opt", "opt/cone/partsel")
            .core(true)
            .tag("cone_gate")
            .inp("a", 2, false)
            .inp("b", 2, false)
            .out("y0", 4, false)
            .out("y1", 4, false)
            .out("w", 8, false)
            .pre(&slices_module("Slices"))
            .l("var wide: logic<8>;")
            .l("always_ff {\n    if_reset {\n        wide = 8'h00;\n    } else {\n        wide[0] = wide[0] ^ a[0];\n        if b == 2'd3 {\n            wide[5] = ~wide[5];\n        }\n        if a == 2'd2 && b == 2'd1 {\n            wide[3] = ~wide[3];\n        }\n    }\n}")
            .l("assign w = wide;")
            .l("inst c0: Slices #(\n    N: 320,\n) (\n    p: wide[6:3],\n    s: wide[7:6],\n    y: y0,\n);")
            .l("inst c1: Slices #(\n    N: 320,\n) (\n    p: {wide[5], wide[3], 2'b10},\n    s: b,\n    y: y1,\n);")
            .finish(),
    );
    // three-level hierarchy: a cone inside a cone
    out.push(
        B::new("opt", "opt/cone/nested")
            .tag("cone_gate")
            .inp("a", 2, false)
            .inp("b", 2, false)
            .out("y", 4, false)
            .out("z", 4, false)
            .pre(&slices_module("Slices"))
            .pre("module Mid (\n    p: input logic<4>,\n    s: input logic<2>,\n    en: input logic,\n    y: output logic<4>,\n    z: output logic<4>,\n) {\n    var y0: logic<4>;\n    inst inner: Slices #(\n        N: 320,\n    ) (\n        p: if en ? p : 4'd0,\n        s,\n        y: y0,\n    );\n    inst outer: Slices #(\n        N: 330,\n    ) (\n        p: y0,\n        s,\n        y: z,\n    );\n    assign y = y0;\n}\n")
            .l("var r: logic<2>;")
            .l(&ff("r", "2'd1", "if b == 2'd0 ? r + 1 : r"))
            .l("inst m: Mid (\n    p: {a, r},\n    s: r,\n    en: b[1],\n    y,\n    z,\n);")
            .finish(),
    );
    // ---- dense selector chains: LUT mode (version split) and switch lowering (Cranelift) ------
    // LUT mode needs: a base write followed by an if / else-if chain of `sel == const` arms
    // (>= 8 arms, <= 8 distinct leaves incl. the default) on a power-of-two wide variable.
    for arms in [8u32, 12, 16] {
        let leaves = [1u32, 6, 3, 7, 12, 9];
        let mut chain = String::from("t = 4'd10;\n");
        for k in 0..arms {
            let leaf = leaves[((k * 5 + k / 3) % 6) as usize];
            chain.push_str(&format!("{} sel == 4'd{k} {{\n    t = 4'd{leaf};\n", if k == 0 { "if" } else { "} else if" }));
        }
        chain.push_str("}");
        let ind = chain.lines().map(|l| format!("    {l}")).collect::<Vec<_>>().join("\n");
        let mut body = String::from("case sel {\n");
        for k in 0..arms {
            let leaf = [1u32, 6, 3, 7, 0, 5, 2, 4][(k * 5 % 8) as usize];
            body.push_str(&format!("    4'd{k}: u = 3'd{leaf};\n"));
        }
        body.push_str("    default: u = 3'd0;\n}");
        let ind2 = body.lines().map(|l| format!("    {l}")).collect::<Vec<_>>().join("\n");
        out.push(
            B::new("opt", format!("opt/lut/chain{arms}"))
                .core(true)
                .tag("vsplit_lut")
                .tag("switch_lower")
                .tag("wrap")
                .inp("a", 2, false)
                .inp("b", 2, false)
                .out("y", 4, false)
                .out("yu", 3, false)
                .out("q", 2, false)
                .out("f", 2, false)
                .l("var sel: logic<4>;")
                .l("assign sel = {a, b};")
                .l("var t: logic<4>;")
                .l(&format!("always_comb {{\n{ind}\n}}"))
                .l("assign y = t;")
                .l("var u: logic<3>;")
                .l(&format!("always_comb {{\n{ind2}\n}}"))
                .l("assign yu = u;")
                .l(&ff("q", "0", "q + t[1:0]"))
                // the same selector as an if/else-if equality chain inside an event block
                .l(&{
                    let mut s = String::from("always_ff {\n    if_reset {\n        f = 0;\n    }");
                    for k in 0..arms.min(10) {
                        s.push_str(&format!(" else if sel == 4'd{k} {{\n        f = f + 2'd{};\n    }}", (k * 3 + 1) % 4));
                    }
                    s.push_str(" else {\n        f = f ^ 2'd1;\n    }\n}");
                    s
                })
                .finish(),
        );
    }
    // replicated LUT slices: many small case tables over a narrow selector
    out.push(
        B::new("opt", "opt/lut/slices")
            .tag("vsplit_lut")
            .inp("a", 2, false)
            .inp("b", 2, false)
            .out("y", 4, false)
            .pre("module LutSlices #(\n    param N: u32 = 24,\n) (\n    sel: input logic<4>,\n    y: output logic<4>,\n) {\n    var t: logic<4> [N];\n    for i in 0..N :g {\n        always_comb {\n            case sel {\n                4'd0: t[i] = (i % 16) as 4;\n                4'd1: t[i] = ((i + 3) % 16) as 4;\n                4'd2: t[i] = 4'd9;\n                4'd3: t[i] = ((i * 3) % 16) as 4;\n                4'd4: t[i] = 4'd1;\n                4'd5: t[i] = 4'd14;\n                4'd6: t[i] = ((i + 7) % 16) as 4;\n                4'd7: t[i] = 4'd6;\n                4'd8: t[i] = 4'd1;\n                4'd9: t[i] = 4'd9;\n                default: t[i] = 4'd0;\n            }\n        }\n    }\n    always_comb {\n        y = 0;\n        for i in 0..N {\n            y = y ^ t[i];\n        }\n    }\n}\n")
            .l("inst u: LutSlices (\n    sel: {a, b},\n    y,\n);")
            .finish(),
    );
    // ---- lane vectorisation (bit-lane structure recovery): a transposed bit matrix reduced per
    // row (W x N one-bit stores + reductions), and >= 16 one-bit bitwise lanes of one word ------
    for (n, w) in [(16u32, 8u32), (24, 4)] {
        out.push(
            B::new("opt", format!("opt/lane/transpose{n}x{w}"))
                .core(n == 16)
                .tag("lane_vector")
                .tag("comb_fusion")
                .tag("wrap")
                .inp("a", 2, false)
                .inp("b", 2, false)
                .out("y", w, false)
                .out("z", 16, false)
                .out("q", 2, false)
                .l(&format!("const N: u32 = {n};\nconst W: u32 = {w};"))
                .l("var m: logic<W> [N];")
                .l("var tr: logic<N> [W];")
                .l("for i in 0..N :gi {\n    assign m[i] = ({a, b, b, a} ^ ((i * 37) as 8)) as W;\n    for j in 0..W :gj {\n        assign tr[j][i] = m[i][j];\n    }\n}")
                .l("for j in 0..W :gr {\n    assign y[j] = |tr[j];\n}")
                .l("var p: logic<16>;\nvar r: logic<16>;")
                .l("assign p = {a, b, a, b, b, a, b, a};")
                .l("assign r = {b, b, a, a, b, a, a, b} ^ 16'h3c5a;")
                .l("for k in 0..16 :gk {\n    assign z[k] = (p[k] & r[k]) ^ p[(k + 1) % 16];\n}")
                .l(&ff("q", "0", "q + y[1:0] + z[1:0]"))
                .finish(),
        );
    }
    // ---- version split: a variable reassigned k times with readers in between -----------------
    for k in [3u32, 6] {
        let mut body = String::from("t = {2'b0, a};\n");
        let mut reads = String::new();
        for i in 0..k {
            body.push_str(&format!("m{i} = t ^ 4'd{};\n", (i * 5 + 3) % 16));
            body.push_str(&format!(
                "t = t + {{b, 2'b0}} + 4'd{};\n",
                i + 1
            ));
            if i % 2 == 1 {
                body.push_str(&format!("if a[{}] {{\n    t = t ^ m{i};\n}}\n", i % 2));
            }
            reads.push_str(&format!(" ^ m{i}"));
        }
        let decl: String = (0..k).map(|i| format!("var m{i}: logic<4>;\n")).collect();
        let ind = body.lines().map(|l| format!("    {l}")).collect::<Vec<_>>().join("\n");
        out.push(
            B::new("opt", format!("opt/vsplit/k{k}"))
                .core(true)
                .tag("vsplit")
                .tag("wrap")
                .inp("a", 2, false)
                .inp("b", 2, false)
                .out("y", 4, false)
                .out("z", 4, false)
                .out("q", 2, false)
                .l("var t: logic<4>;")
                .l(decl.trim_end())
                .l(&format!("always_comb {{\n{ind}\n}}"))
                .l("assign y = t;")
                .l(&format!("assign z = 4'd0{reads};"))
                .l(&ff("q", "0", "q + t"))
                .finish(),
        );
    }
    // many versioned variables (replicated)
    out.push(
        B::new("opt", "opt/vsplit/slices")
            .tag("vsplit")
            .tag("comb_fusion")
            .inp("a", 2, false)
            .inp("b", 2, false)
            .out("y", 4, false)
            .pre("module VsSlices #(\n    param N: u32 = 40,\n) (\n    a: input logic<2>,\n    b: input logic<2>,\n    y: output logic<4>,\n) {\n    var t: logic<4> [N];\n    for i in 0..N :g {\n        always_comb {\n            t[i] = {a, b};\n            t[i] = t[i] + ((i % 16) as 4);\n            if b[i % 2] {\n                t[i] = t[i] ^ {b, a};\n            }\n            t[i] = t[i] - 4'd1;\n        }\n    }\n    always_comb {\n        y = 0;\n        for i in 0..N {\n            y = y ^ t[i];\n        }\n    }\n}\n")
            .l("inst u: VsSlices (\n    a,\n    b,\n    y,\n);")
            .finish(),
    );
    // ---- comb fusion: single-reader chains and cheap duplicated defs ---------------------------
    out.push(
        B::new("opt", "opt/fusion/chain")
            .core(true)
            .tag("comb_fusion")
            .tag("wrap")
            .inp("a", 2, false)
            .inp("b", 2, false)
            .out("y", 4, false)
            .out("z", 4, false)
            .out("q", 2, false)
            .l("var t1: logic<4>;\nvar t2: logic<4>;\nvar t3: logic<4>;\nvar t4: logic<4>;\nvar d1: logic<4>;")
            .l("assign t1 = {a, b} + 4'd3;")
            .l("assign t2 = t1 ^ {b, a};")
            .l("assign t3 = t2 + (a as 4);")
            .l("assign t4 = t3 & 4'hd;")
            .l("assign d1 = {2'b0, a} + 4'd1;")
            .l("assign y = t4 | {3'b0, b[0]};")
            .l("assign z = d1 ^ (d1 << 1);")
            .l(&ff("q", "0", "q + t4"))
            .finish(),
    );
    // a multiply-assigned variable with a reader between the writes (fusion must keep both)
    out.push(
        B::new("opt", "opt/fusion/multiwrite")
            .core(true)
            .tag("comb_fusion")
            .tag("vsplit")
            .tag("wrap")
            .inp("a", 2, false)
            .inp("b", 2, false)
            .out("y", 4, false)
            .out("z", 4, false)
            .out("q", 2, false)
            .l("var t: logic<4>;\nvar m: logic<4>;")
            .l("always_comb {\n    t = {a, b};\n    m = t + 4'd1;\n    t = m ^ {b, a};\n    z = t;\n    t = t + m;\n}")
            .l("assign y = t;")
            .l(&ff("q", "0", "q ^ t[1:0] ^ m[3:2]"))
            .finish(),
    );
    // ---- dead-variable DCE: temporaries never read, cascaded -----------------------------------
    // Dead-variable DCE only considers `let`-kind variables (ports and `var`s are protected as
    // externally visible): dead `let` temporaries, cascaded, and a `let` whose only reader is an
    // always_ff (comb-to-FF hoist residue), at the root and below it.
    out.push(
        B::new("opt", "opt/dce/dead")
            .core(true)
            .tag("dead_var_dce")
            .inp("a", 2, false)
            .inp("b", 2, false)
            .out("y", 4, false)
            .out("q", 2, false)
            .out("h", 4, false)
            .pre("module DeadSub (\n    clk: input clock,\n    rst: input reset,\n    a: input logic<2>,\n    b: input logic<2>,\n    y: output logic<4>,\n    h: output logic<4>,\n    unused: output logic<4>,\n) {\n    let _t0: logic<4> = {a, b} * 4'd3;\n    let _t1: logic<4> = _t0 + 4'd1;\n    let _t2: logic<4> = _t1 ^ _t0;\n    let _t3: logic<4> = _t2 + {b, a};\n    let hh: logic<4> = {b, a} ^ 4'd9;\n    var d0: logic<4>;\n    assign d0 = {a, b} * 4'd5;\n    assign unused = d0 + 4'd1;\n    assign y = {b, a} + 4'd2;\n    always_ff {\n        if_reset {\n            h = 0;\n        } else {\n            h = hh + 4'd1;\n        }\n    }\n}\n")
            .l("var nc: logic<4>;")
            .l("inst u: DeadSub (\n    clk,\n    rst,\n    a,\n    b,\n    y,\n    h,\n    unused: nc,\n);")
            .l("let _dead0: logic<4> = nc + 4'd1;")
            .l("let _dead1: logic<4> = _dead0 * {a, b};")
            .l(&ff("q", "0", "q + y[1:0]"))
            .finish(),
    );
    // many dead lets in replicated slices
    out.push(
        B::new("opt", "opt/dce/slices")
            .tag("dead_var_dce")
            .inp("a", 2, false)
            .inp("b", 2, false)
            .out("y", 4, false)
            .pre("module DeadSlices #(\n    param N: u32 = 24,\n) (\n    a: input logic<2>,\n    b: input logic<2>,\n    y: output logic<4>,\n) {\n    var t: logic<4> [N];\n    for i in 0..N :g {\n        let _d0: logic<4> = {a, b} + (i % 16);\n        let _d1: logic<4> = _d0 ^ {b, a};\n        assign t[i] = ({a, b} ^ ((i * 5) % 16)) + {2'b0, b};\n    }\n    always_comb {\n        y = 0;\n        for i in 0..N {\n            y = y ^ t[i];\n        }\n    }\n}\n")
            .l("inst u: DeadSlices (\n    a,\n    b,\n    y,\n);")
            .finish(),
    );
    // `let`s whose ONLY readers are index positions: the dynamic element index and the dynamic
    // bit select of a runtime-indexed array WRITE (comb and ff), and the dynamic index of a read.
    // Liveness must count an index expression as a read even though it is not a value operand.
    out.push(
        B::new("opt", "opt/dce/indexonly")
            .core(true)
            .tag("dead_var_dce")
            .inp("a", 2, false)
            .inp("b", 2, false)
            .out("y", 4, false)
            .out("z", 4, false)
            .out("q", 2, false)
            .l("var m: logic<4> [4];
var r: logic<4> [2];")
            .l("let wi: logic<2> = a ^ b;")
            .l("let bs: logic<2> = b + 2'd1;")
            .l("let ri: logic<2> = a + b;")
            .l("let fi: logic = a[0] ^ b[1];")
            .l("let fb: logic<2> = a & ~b;")
            .l("always_comb {\n    m[0] = {a, a};\n    m[1] = {a, b};\n    m[2] = {b, a};\n    m[3] = {b, b};\n    m[wi][bs] = 1'b1;\n}")
            .l("assign y = m[ri];")
            .l("always_ff {\n    if_reset {\n        r[0] = 0;\n        r[1] = 0;\n    } else {\n        r[fi][fb] = ~r[fi][fb];\n    }\n}")
            .l("assign z = r[0] ^ r[1];")
            .l(&ff("q", "0", "q + y[1:0]"))
            .finish(),
    );
    // ---- repeated loads (JIT load cache) with interleaved stores and if blocks ------------------
    out.push(
        B::new("opt", "opt/loads/repeat")
            .core(true)
            .tag("load_cache")
            .tag("wrap")
            .inp("a", 2, false)
            .inp("b", 2, false)
            .out("y", 4, false)
            .out("z", 4, false)
            .out("q", 2, false)
            .l("var v: logic<4>;\nvar w: logic<4>;\nvar x: logic<4>;")
            .l("always_comb {\n    v = {a, b};\n    w = v + v;\n    x = w ^ v;\n    if a[0] {\n        v = v + 4'd1;\n        w = v + x;\n    }\n    x = x + v + w;\n    if b[1] {\n        x = x ^ v;\n    } else {\n        w = w + v;\n    }\n    y = v + w + x;\n    z = v ^ w ^ x ^ v;\n}")
            .l("always_ff {\n    if_reset {\n        q = 0;\n    } else {\n        q = q + v;\n        q = q ^ w;\n        if a[1] {\n            q = q + x + v;\n        }\n        q = q + v;\n    }\n}")
            .finish(),
    );
    // ---- shared if conditions + cond hoist ($display inside an event block) ----------------------
    out.push(
        B::new("opt", "opt/hoist/shared")
            .core(true)
            .tag("cond_hoist")
            .tag("display")
            .tag("wrap")
            .inp("a", 2, false)
            .inp("b", 2, false)
            .out("y", 4, false)
            .out("q", 2, false)
            .out("c", 1, false)
            .l("var t0: logic<4>;\nvar t1: logic<4>;\nvar t2: logic<4>;\nvar t3: logic<4>;")
            .l("always_comb {\n    t0 = 0;\n    t1 = 4'd1;\n    t2 = 4'd2;\n    t3 = 4'd3;\n    if a == b {\n        t0 = {a, b};\n    }\n    if a == b {\n        t1 = {b, a};\n    }\n    if a == b {\n        t2 = t0 + t1;\n    }\n    if a == b {\n        t3 = t2 ^ 4'd9;\n    }\n}")
            .l("assign y = t0 ^ t1 ^ t2 ^ t3;")
            .l("always_ff {\n    if_reset {\n        q = 0;\n        c = 0;\n    } else {\n        q = q + y;\n        if (a + b) == 2'd1 {\n            $display(\"hit a=%d b=%d q=%h\", a, b, q);\n            c = c + 1;\n        }\n        if q[0] && a[1] {\n            $display(\"odd %b\", q);\n        }\n    }\n}")
            .finish(),
    );
}

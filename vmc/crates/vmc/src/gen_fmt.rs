//! Shared machinery of C08 (formatting is idempotent) and C09 (formatting only changes layout):
//! the variant family (layout deviations x [format] settings), the `veryl fmt` pipeline as a
//! library call, token/comment stream extraction, the "optional trailing separator"
//! canonicalisation, SystemVerilog emission and an own, boring SV tokenizer.

use crate::checks::gen_text::*;
use crate::core::*;
use std::path::PathBuf;
use veryl_analyzer::{Analyzer, Context};
use veryl_emitter::Emitter;
use veryl_parser::Parser;

/// Letters of the formatting checks: the C08 layout alphabet plus multi-byte comment text, several
/// comments on a line / in a gap (a comment in gap 0 is the "comment before the first token").
pub const FMT_LETTERS: [&str; 15] = [
    "",
    " ",
    "\n",
    "\n\n\n",
    "\r\n",
    "\t",
    " /* c */ ",
    " // c\n",
    "\n/// d\n",
    "                                                                                ",
    " /* é漢 */ ",
    " /* a */ /* b */ ",
    "\n// a\n// b\n",
    " /* a\n   b */ ",
    "\n/* a\n   b */\n// c\n",
];

/// Letter pairs (indices into FMT_LETTERS) used for two-deviation variants.
pub const FMT_PAIRS: [(usize, usize); 8] = [(2, 7), (6, 2), (0, 6), (9, 2), (3, 7), (8, 2), (7, 7), (2, 2)];

#[derive(Clone, Debug)]
pub struct LVariant {
    pub desc: String,
    pub text: String,
}

/// A layout variant, described cheaply; `render` produces the text on demand (big files have
/// hundreds of thousands of variants, which must not all be materialised at once).
#[derive(Clone, Debug, PartialEq, Eq)]
pub enum VSpec {
    Unchanged,
    /// letter index at every admissible gap
    Uniform(usize),
    /// gap, letter index
    Single(usize, usize),
    /// gap, gap, letter index, letter index
    Pair(usize, usize, usize, usize),
    /// item index replaced by text
    Item(usize, String),
}

/// Variant specs of one layout in a deterministic order:
///   * the unchanged text,
///   * per letter: all gaps at once, and every single gap,
///   * two deviations for the given letter-index pairs: adjacent gaps (`adjacent_pairs`) or all
///     gap pairs (`all_pairs`).
pub fn layout_specs(lay: &Layout, letters: &[&str], pairs: &[(usize, usize)], adjacent_pairs: bool, all_pairs: bool) -> Vec<VSpec> {
    // gap-major order: a run cut short by its budget has still seen every letter
    let mut vs = vec![VSpec::Unchanged];
    for li in 0..letters.len() {
        vs.push(VSpec::Uniform(li));
    }
    for g in 0..lay.n_gaps() {
        for (li, l) in letters.iter().enumerate() {
            if lay.admissible(g, l) {
                vs.push(VSpec::Single(g, li));
            }
        }
    }
    if adjacent_pairs || all_pairs {
        let n = lay.n_gaps();
        for g in 0..n {
            let hi = if all_pairs { n } else { (g + 2).min(n) };
            for h in g + 1..hi {
                for &(a, b) in pairs {
                    let (a, b) = (a % letters.len(), b % letters.len());
                    if lay.admissible(g, letters[a]) && lay.admissible(h, letters[b]) {
                        vs.push(VSpec::Pair(g, h, a, b));
                    }
                }
            }
        }
    }
    vs
}

pub fn render_spec(text: &str, lay: &Layout, letters: &[&str], spec: &VSpec) -> LVariant {
    match spec {
        VSpec::Unchanged => LVariant {
            desc: "unchanged".into(),
            text: text.to_string(),
        },
        VSpec::Uniform(li) => LVariant {
            desc: format!("uniform {}", letter_name(letters[*li])),
            text: lay.uniform(letters[*li]),
        },
        VSpec::Single(g, li) => LVariant {
            desc: format!("gap {g} := {}", letter_name(letters[*li])),
            text: lay.with_gaps(&[(*g, letters[*li])]),
        },
        VSpec::Pair(g, h, a, b) => LVariant {
            desc: format!("gaps {g},{h} := {},{}", letter_name(letters[*a]), letter_name(letters[*b])),
            text: lay.with_gaps(&[(*g, letters[*a]), (*h, letters[*b])]),
        },
        VSpec::Item(i, t) => LVariant {
            desc: format!("item {i} := {t}"),
            text: lay.with_item(*i, t),
        },
    }
}

/// Renders a chunk of specs, dropping texts already seen (`seen` persists across chunks).
pub fn render_chunk(text: &str, lay: &Layout, letters: &[&str], specs: &[VSpec], seen: &mut std::collections::BTreeSet<[u8; 12]>) -> Vec<LVariant> {
    let mut out = Vec::with_capacity(specs.len());
    for s in specs {
        let v = render_spec(text, lay, letters, s);
        let h: [u8; 12] = blake3::hash(v.text.as_bytes()).as_bytes()[..12].try_into().unwrap();
        if seen.insert(h) {
            out.push(v);
        }
    }
    out
}

/// Small hand-written catalogue: constructs the corpus under-represents in unformatted shape
/// (alignment groups next to comments, long lines, nested lists with/without trailing commas).
pub const CATALOGUE: [(&str, &str); 12] = [
    ("cat/call_args", "module A {\n    function f (a: input logic<8>, b: input logic<8>, c: input logic<8>) -> logic<8> {\n        return a + b + c;\n    }\n    var x: logic<8>;\n    assign x = f(1, f(2, 3, 4), f(a: 5, b: 6, c: 7,));\n}\n"),
    ("cat/align_comments", "module A (\n    a: input logic, // first\n    bbbbbb: output logic<8>, /* second */\n    c: input logic<2>,\n) {\n    var x: logic;\n    var yyyyy: logic<8>; // y\n    assign x = a;\n    assign yyyyy = {a repeat 8};\n    assign bbbbbb = yyyyy;\n}\n"),
    ("cat/long_expr", "module A {\n    var aaaaaaaaaaaaaaaa: logic<32>;\n    var bbbbbbbbbbbbbbbb: logic<32>;\n    var c: logic<32>;\n    assign c = aaaaaaaaaaaaaaaa + bbbbbbbbbbbbbbbb * aaaaaaaaaaaaaaaa - bbbbbbbbbbbbbbbb + aaaaaaaaaaaaaaaa + bbbbbbbbbbbbbbbb + aaaaaaaaaaaaaaaa;\n    assign aaaaaaaaaaaaaaaa = 1;\n    assign bbbbbbbbbbbbbbbb = 2;\n}\n"),
    ("cat/case_if", "module A (\n    s: input logic<2>,\n    o: output logic<4>,\n) {\n    always_comb {\n        case s {\n            0: o = 1;\n            1, 2: {\n                o = 2;\n            }\n            default: o = 3;\n        }\n        if s == 0 {\n            o = 4;\n        } else if s == 1 {\n            o = 5;\n        } else {\n            o = 6;\n        }\n    }\n}\n"),
    ("cat/inst", "module B #(\n    param W: u32 = 1,\n) (\n    a: input logic<W>,\n    b: output logic<W>,\n) {\n    assign b = a;\n}\nmodule A {\n    var a: logic<4>;\n    var b: logic<4>;\n    inst u: B #( W: 4 ) ( a, b: b );\n    assign a = 0;\n}\n"),
    ("cat/struct_enum", "package P {\n    struct S {\n        a: logic<8>,\n        bb: logic,\n    }\n    enum E: logic<2> {\n        X = 0,\n        YY = 1,\n        Z,\n    }\n    const C: S = S'{a: 1, bb: 0};\n}\n"),
    ("cat/concat_array", "module A {\n    var a: logic<8>;\n    var b: logic<4> [2];\n    assign a = {b[0], b[1]};\n    assign b = '{1, 2};\n    let c: logic<16> = {a, a,};\n}\n"),
    ("cat/generics", "module A::<T: u32 = 1, U: u32 = 2,> {\n    const X: u32 = T + U;\n}\nmodule B {\n    inst u: A::<3, 4>;\n    inst v: A::<3,>;\n}\n"),
    ("cat/attribute_doc", "/// doc é\n/// more\n#[allow(unused_variable, missing_reset_statement,)]\nmodule A {\n    #[sv(\"keep\")]\n    var a: logic;\n    /* block\n       comment */\n    assign a = 0; // tail\n}\n"),
    ("cat/unary_after_binary", "module A {\n    var a: logic<8>;\n    var b: logic<8>;\n    var c: logic<8>;\n    assign a = b - -c;\n    assign b = a & &c | |a ^ ~^c;\n    assign c = a + +b - -(-a);\n}\n"),
    // multiple-import lists with and without a trailing comma, on one line and wrapped: the optional
    // trailing comma is skipped by the walker and re-created, so comments next to it are at risk
    ("cat/import_lists", "package P {\n    const A: u32 = 1;\n    const B: u32 = 2;\n    const C: u32 = 3;\n}\nmodule M {\n    import P::{A, B, C,};\n    let _x: u32 = A + B + C;\n}\nmodule N {\n    import P::{\n        A,\n        B,\n    };\n    import P::{B, C};\n    let _y: u32 = A + B + C;\n}\n"),
    ("cat/interface_modport", "interface I {\n    var a: logic;\n    var b: logic;\n    modport m {\n        a: input,\n        b: output,\n    }\n    modport s { a: output, b: input }\n}\n"),
];

pub fn catalogue_files() -> Vec<CorpusFile> {
    CATALOGUE
        .iter()
        .map(|(n, t)| CorpusFile {
            name: n.to_string(),
            path: PathBuf::from(n),
            text: t.to_string(),
        })
        .collect()
}

// --------------------------------------------------------------------------------- streams

/// Ordinary token texts and comment texts (TokenCollector(true) order) of `text`.
pub fn streams_here(text: &str) -> Result<(Vec<String>, Vec<String>), String> {
    let toks = collect_tokens_here(text, true)?;
    let mut t = vec![];
    let mut c = vec![];
    for x in toks {
        if x.comment {
            c.push(x.text);
        } else {
            t.push(x.text);
        }
    }
    Ok((t, c))
}

/// Removes the optional trailing separators. In crates/parser/veryl.par every `[ Comma ]` stands
/// directly in front of the closing delimiter of its list (`)`, `}`, `]`, `>`), and no mandatory
/// `Comma` can be followed by a closing delimiter (Width/Array/CaseCondition/SwitchCondition/
/// AlwaysFfEventList/IncludeDeclaration all continue with an item), so "a comma token directly
/// followed by a closing delimiter token" is exactly the set of optional separators.
pub fn drop_optional_separators(tokens: &[String]) -> Vec<String> {
    let mut out = Vec::with_capacity(tokens.len());
    for (i, t) in tokens.iter().enumerate() {
        if t == "," {
            if let Some(n) = tokens.get(i + 1) {
                if matches!(n.as_str(), ")" | "}" | "]" | ">") {
                    continue;
                }
            }
        }
        out.push(t.clone());
    }
    out
}

/// Comment text with trailing whitespace trimmed (on each of its lines — the formatter strips
/// trailing blanks per output line — and at its end, which drops a line comment's terminator).
pub fn canonical_comment(c: &str) -> String {
    let lines: Vec<&str> = c.split('\n').map(|l| l.trim_end()).collect();
    lines.join("\n").trim_end().to_string()
}

/// Index of the first difference of two sequences.
pub fn first_diff<T: PartialEq>(a: &[T], b: &[T]) -> Option<usize> {
    let n = a.len().min(b.len());
    for i in 0..n {
        if a[i] != b[i] {
            return Some(i);
        }
    }
    if a.len() != b.len() { Some(n) } else { None }
}

pub fn window(v: &[String], at: usize) -> Vec<String> {
    let s = at.saturating_sub(3);
    let e = (at + 4).min(v.len());
    v[s..e].iter().map(|x| clip(x, 40)).collect()
}

pub fn token_kind(t: &str) -> String {
    let c = t.chars().next().unwrap_or(' ');
    if t.starts_with('"') {
        "string".into()
    } else if c.is_ascii_digit() || (c == '\'' && t.len() > 1) {
        "number".into()
    } else if c.is_alphabetic() || c == '_' || c == '$' {
        "word".into()
    } else if t.len() > 12 || t.contains('\n') {
        "embed-text".into()
    } else {
        t.to_string()
    }
}

pub fn comment_kind(t: &str) -> &'static str {
    if t.starts_with("///") {
        "doc"
    } else if t.starts_with("//") {
        "line"
    } else {
        "block"
    }
}

/// Class of the first difference between two canonical sequences.
pub fn seq_class(a: &[String], b: &[String], i: usize, kind: &dyn Fn(&str) -> String) -> String {
    let rest_eq = |x: &[String], y: &[String]| {
        let n = x.len().min(y.len()).min(6);
        n > 0 && x[..n] == y[..n] || (x.is_empty() && y.is_empty())
    };
    if i >= b.len() || (i < a.len() && rest_eq(&a[i + 1..], &b[i..])) {
        format!("dropped:{}", kind(&a[i]))
    } else if i >= a.len() || rest_eq(&a[i..], &b[i + 1..]) {
        format!("added:{}", kind(&b[i]))
    } else if i + 1 < a.len() && b[i] == format!("{}{}", a[i], a[i + 1]) {
        format!("merged:{}+{}", kind(&a[i]), kind(&a[i + 1]))
    } else {
        format!("changed:{}", kind(&a[i]))
    }
}

// --------------------------------------------------------------------------------- emission

/// Emits SystemVerilog for one source text the way the repo's emitter tests do for a single file
/// (pass1, post-pass1, pass2, Emitter::emit); analyzer diagnostics are ignored (both sides of the
/// comparison see the same ones). Must run on a fresh thread.
pub fn emit_here(text: &str, dir: &str) -> Result<String, String> {
    let metadata = metadata_with(&FmtSetting::DEFAULT);
    // `include` resolves its file relative to the source path: place the (virtual) source in the
    // directory of the corpus file it derives from
    let src = PathBuf::from(dir).join(fresh_path());
    let parser = Parser::parse(text, &src).map_err(|e| format!("{e}"))?;
    let analyzer = Analyzer::new(&metadata);
    let _ = analyzer.analyze_pass1("prj", &parser.veryl);
    let _ = Analyzer::analyze_post_pass1();
    let mut context = Context::default();
    let _ = analyzer.analyze_pass2(&parser.veryl, &mut context, None);
    let mut emitter = Emitter::new(&metadata, "prj", &src, &src.with_extension("sv"), &src.with_extension("sv.map"));
    emitter.emit(&parser.veryl, text);
    Ok(emitter.as_str().to_string())
}

pub fn emit_isolated(text: &str, dir: &str) -> Result<String, String> {
    let t = text.to_string();
    let d = dir.to_string();
    match run_isolated(BIG_STACK, move || emit_here(&t, &d)) {
        Ok(x) => x,
        Err(p) => Err(format!("panic: {p} at {:?}", take_panic_loc())),
    }
}

/// Own SystemVerilog tokenizer: comments dropped, strings kept whole, words (identifiers, numbers
/// with base/quote, `$sys`, `` `macro ``) by maximal munch, operators by longest match against the
/// IEEE 1800 operator list, everything else one character per token.
pub fn sv_tokens(sv: &str) -> Vec<String> {
    const OPS: [&str; 47] = [
        "<<<=", ">>>=", "===", "!==", "==?", "!=?", "<<<", ">>>", "<<=", ">>=", "<->", "|->", "|=>", "->>", "&&&", "++", "--", "**", "<<", ">>", "<=", ">=", "==", "!=", "&&", "||", "+=", "-=", "*=",
        "/=", "%=", "&=", "|=", "^=", "~&", "~|", "~^", "^~", "->", "::", "+:", "-:", "'{", "#(", "(*", "*)", "##",
    ];
    let b: Vec<char> = sv.chars().collect();
    let mut out = vec![];
    let mut i = 0;
    let word = |c: char| c.is_alphanumeric() || c == '_' || c == '$';
    while i < b.len() {
        let c = b[i];
        if c.is_whitespace() {
            i += 1;
        } else if c == '/' && i + 1 < b.len() && b[i + 1] == '/' {
            while i < b.len() && b[i] != '\n' {
                i += 1;
            }
        } else if c == '/' && i + 1 < b.len() && b[i + 1] == '*' {
            i += 2;
            while i + 1 < b.len() && !(b[i] == '*' && b[i + 1] == '/') {
                i += 1;
            }
            i = (i + 2).min(b.len());
        } else if c == '"' {
            let s = i;
            i += 1;
            while i < b.len() && b[i] != '"' {
                if b[i] == '\\' {
                    i += 1;
                }
                i += 1;
            }
            i = (i + 1).min(b.len());
            out.push(b[s..i].iter().collect());
        } else if word(c) || c == '`' || (c == '\'' && i + 1 < b.len() && (b[i + 1].is_alphanumeric())) {
            let s = i;
            i += 1;
            while i < b.len() && (word(b[i]) || (b[i] == '\'' && i + 1 < b.len() && b[i + 1].is_alphanumeric())) {
                i += 1;
            }
            out.push(b[s..i].iter().collect());
        } else {
            let mut matched = false;
            for op in OPS {
                let oc: Vec<char> = op.chars().collect();
                if i + oc.len() <= b.len() && b[i..i + oc.len()] == oc[..] {
                    out.push(op.to_string());
                    i += oc.len();
                    matched = true;
                    break;
                }
            }
            if !matched {
                out.push(c.to_string());
                i += 1;
            }
        }
    }
    out
}

// --------------------------------------------------------------------------------- settings

/// The [format] settings explored. Index 0 is the default. `native` equals `unix` on this
/// platform and is left out.
pub fn settings(all: bool) -> Vec<FmtSetting> {
    let mut v = vec![FmtSetting::DEFAULT];
    if all {
        for &newline_style in &[0u8, 2, 3] {
            for &vertical_align in &[true, false] {
                for &max_width in &[120usize, 40] {
                    for &indent_width in &[4usize, 2] {
                        let s = FmtSetting {
                            indent_width,
                            max_width,
                            vertical_align,
                            newline_style,
                        };
                        if s != FmtSetting::DEFAULT {
                            v.push(s);
                        }
                    }
                }
            }
        }
    } else {
        // every value of every option appears in at least one alternate
        v.push(FmtSetting {
            indent_width: 2,
            max_width: 40,
            vertical_align: true,
            newline_style: 3,
        });
        v.push(FmtSetting {
            indent_width: 4,
            max_width: 40,
            vertical_align: false,
            newline_style: 2,
        });
    }
    v
}

// --------------------------------------------------------------------------------- phases

/// The formatting checks walk the corpus several times, cheapest/broadest family first, so that a
/// budget cut leaves many files covered by the basic family rather than one file covered by all.
#[derive(Clone, Debug)]
pub struct Phase {
    pub name: &'static str,
    pub settings: Vec<FmtSetting>,
    /// false: unchanged + uniform + every single gap + adjacent-gap pairs;
    /// true: all non-adjacent gap pairs of files with at most 60 tokens
    pub far_pairs: bool,
}

pub fn phase_plan(thorough: bool) -> Vec<Phase> {
    let base = settings(false);
    let mut v = vec![Phase {
        name: "A",
        settings: base.clone(),
        far_pairs: false,
    }];
    if thorough {
        let rest: Vec<FmtSetting> = settings(true).into_iter().filter(|s| !base.contains(s)).collect();
        v.push(Phase {
            name: "B",
            settings: rest,
            far_pairs: false,
        });
        v.push(Phase {
            name: "C",
            settings: base,
            far_pairs: true,
        });
    }
    v
}

pub fn phase_specs(lay: &Layout, phase: &Phase) -> Vec<VSpec> {
    if !phase.far_pairs {
        layout_specs(lay, &FMT_LETTERS, &FMT_PAIRS, true, false)
    } else if lay.n_tokens() <= 60 {
        layout_specs(lay, &FMT_LETTERS, &FMT_PAIRS, false, true)
            .into_iter()
            .filter(|s| matches!(s, VSpec::Pair(g, h, _, _) if *h > *g + 1))
            .collect()
    } else {
        vec![]
    }
}

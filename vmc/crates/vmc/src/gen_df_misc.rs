//! DF part: casts, concatenation, selects, conditional expressions, literals, system functions;
//! and the wide sub-family (internal widths around the 32/64/128-bit chunk boundaries).

use super::{B, Design};

fn ff(target: &str, reset: &str, e: &str) -> String {
    format!(
        "always_ff {{\n    if_reset {{\n        {target} = {reset};\n    }} else {{\n        {target} = {e};\n    }}\n}}"
    )
}

/// A module with inputs a:2 b:2 (optionally signed a), one comb output `y` of width `wy`
/// assigned from `e`, a registered copy `q`, and an accumulating xor register `x`.
fn simple(id: &str, core: bool, sa: bool, wy: u32, sy: bool, e: &str) -> Design {
    B::new("misc", format!("misc/{id}"))
        .core(core)
        .inp("a", 2, sa)
        .inp("b", 2, false)
        .out("y", wy, sy)
        .out("q", wy, sy)
        .out("x", 3, false)
        .l(&format!("assign y = {e};"))
        .l(&ff("q", "0", e))
        .l(&ff("x", "0", &format!("x ^ ({e})")))
        .finish()
}

pub fn gen_misc(out: &mut Vec<Design>) {
    // --- casts -------------------------------------------------------------------------
    for (i, (sa, wy, sy, e)) in [
        (false, 3u32, false, "a as 1"),
        (false, 5, false, "a as 3"),
        (true, 5, false, "a as 3"),
        (true, 8, true, "a as 8"),
        (false, 8, false, "(a + b) as 8"),
        (true, 8, true, "(a - b) as 3"),
        (false, 8, false, "a as u8"),
        (true, 8, true, "a as i8"),
        (true, 8, false, "a as u32"),
        (true, 8, true, "a as i32"),
        (false, 8, false, "(a as u64) + (b as u64)"),
        (true, 8, true, "(a as i64) - 1"),
        (false, 2, false, "a as bbool"),
        (false, 2, false, "b as lbool"),
        (false, 5, true, "$signed(a)"),
        (true, 5, false, "$unsigned(a)"),
        (false, 5, true, "$signed(a) + $signed(b)"),
        (true, 5, true, "$signed(b) * a"),
        (true, 6, false, "$unsigned(a) >> 1"),
        (false, 6, true, "$signed(a) >>> 1"),
        (false, 6, true, "$signed({a, b}) >>> b"),
    ]
    .iter()
    .enumerate()
    {
        out.push(simple(&format!("cast/{i}"), i % 3 == 0, *sa, *wy, *sy, e));
    }

    // --- concatenation / repeat ----------------------------------------------------------
    for (i, (wy, e)) in [
        (4u32, "{a, b}"),
        (6, "{a, b, a}"),
        (6, "{a repeat 2, b}"),
        (5, "{a[0] repeat 3, b}"),
        (8, "{{a, b} repeat 2}"),
        (3, "{a, b}"),
        (7, "{1'b1, a, 2'b01, b}"),
        (6, "{a + b, a - b, a[1] ^ b[0]}"),
        (9, "{b repeat 4, a[1]}"),
    ]
    .iter()
    .enumerate()
    {
        out.push(simple(&format!("concat/{i}"), i < 3, false, *wy, false, e));
    }
    // left-hand-side concatenation
    out.push(
        B::new("misc", "misc/concat/lhs")
            .core(true)
            .inp("a", 2, false)
            .inp("b", 2, false)
            .out("hi", 2, false)
            .out("lo", 1, false)
            .out("c", 1, false)
            .out("r1", 2, false)
            .out("r0", 2, false)
            .l("assign {c, hi, lo} = {a, b} + 4'd5;")
            .l("always_ff {\n    if_reset {\n        {r1, r0} = 4'h9;\n    } else {\n        {r1, r0} = {r0, r1} + {a, b};\n    }\n}")
            .finish(),
    );

    // --- selects -------------------------------------------------------------------------
    // `v` is a 4-bit register shifting in b; a is used as a (possibly out of range) index.
    for (i, (wy, e)) in [
        (1u32, "v[0]"),
        (1, "v[3]"),
        (2, "v[2:1]"),
        (3, "v[3:1]"),
        (1, "v[a]"),
        (2, "v[a+:2]"),
        (2, "v[a-:2]"),
        (2, "v[a[0] step 2]"),
        (1, "v[msb]"),
        (1, "v[lsb]"),
        (3, "v[msb:lsb + 1]"),
        (2, "v[msb - 1:lsb + 1]"),
        (1, "v[a + 1]"),
        (1, "v[b[0]]"),
        (2, "{v[a], v[b]}"),
    ]
    .iter()
    .enumerate()
    {
        out.push(
            B::new("misc", format!("misc/select/{i}"))
                .core(i % 2 == 0)
                .inp("a", 2, false)
                .inp("b", 2, false)
                .out("y", *wy, false)
                .out("q", *wy, false)
                .out("vo", 4, false)
                .l("var v: logic<4>;")
                .l(&ff("v", "4'b0110", "{v[1:0], b}"))
                .l("assign vo = v;")
                .l(&format!("assign y = {e};"))
                .l(&ff("q", "0", e))
                .finish(),
        );
    }
    // writes through selects (bit, range, variable index, indexed part select)
    for (i, stmt) in [
        "v[0] = a[0];",
        "v[3:2] = a;",
        "v[a] = b[0];",
        "v[b+:1] = a[1];",
        "v[a[0] step 2] = b;",
        "v[a[0]+:2] = b;",
        "v[msb] = a[0] ^ b[1];",
    ]
    .iter()
    .enumerate()
    {
        out.push(
            B::new("misc", format!("misc/selwr/ff{i}"))
                .core(i % 2 == 0)
                .inp("a", 2, false)
                .inp("b", 2, false)
                .out("vo", 4, false)
                .l("var v: logic<4>;")
                .l(&format!(
                    "always_ff {{\n    if_reset {{\n        v = 4'b1001;\n    }} else {{\n        {stmt}\n    }}\n}}"
                ))
                .l("assign vo = v;")
                .finish(),
        );
        out.push(
            B::new("misc", format!("misc/selwr/comb{i}"))
                .core(i % 2 == 1)
                .inp("a", 2, false)
                .inp("b", 2, false)
                .out("vo", 4, false)
                .out("q", 4, false)
                .l("var v: logic<4>;")
                .l(&format!("always_comb {{\n    v = 4'b0101;\n    {stmt}\n}}"))
                .l("assign vo = v;")
                .l(&ff("q", "0", "q + v"))
                .finish(),
        );
    }

    // --- conditional expressions ---------------------------------------------------------
    for (i, (wy, e)) in [
        (2u32, "if a[0] ? b : a"),
        (3, "if a == b ? 3'd5 : if a >: b ? 3'd2 : 3'd7"),
        (4, "if a[1] ? a + b : a - b"),
        (3, "case a {\n        0: 3'd1,\n        1: 3'd6,\n        2, 3: {1'b0, b},\n        default: 3'd0,\n    }"),
        (3, "case {a, b} {\n        0..=3: 3'd1,\n        4..7: 3'd2,\n        7, 9, 11: 3'd3,\n        default: {b, a[0]},\n    }"),
        (3, "switch {\n        a == 0: 3'd4,\n        b == 1, b == 2: 3'd5,\n        a >: b: 3'd6,\n        default: 3'd7,\n    }"),
        (1, "inside a {0, 3}"),
        (1, "inside {a, b} {2..=5, 9, 12..15}"),
        (1, "outside a + b {1..=2}"),
        (2, "{inside a {1..=2}, outside b {0, 3}}"),
    ]
    .iter()
    .enumerate()
    {
        out.push(simple(&format!("cond/{i}"), i % 2 == 0, false, *wy, false, e));
    }

    // --- literals ------------------------------------------------------------------------
    for (i, (wy, e)) in [
        (4u32, "a + 4'hf"),
        (4, "{a, b} & 4'b1010"),
        (4, "{a, b} | '1"),
        (4, "{a, b} ^ '0"),
        (5, "a + 3'o7"),
        (5, "b + 5'd17"),
        (6, "a * 6'sd3"),
        (8, "a + 1_0"),
        (8, "a + 8'hf_f"),
        (4, "{a, b} + 'd3"),
    ]
    .iter()
    .enumerate()
    {
        out.push(simple(&format!("lit/{i}"), i % 3 == 0, false, *wy, false, e));
    }

    // --- wildcard equality against patterns with x / z digits -----------------------------------
    for (i, (wy, e)) in [
        (1u32, "a ==? 2'b1x"),
        (1, "b !=? 2'bz0"),
        (1, "{a, b} ==? 4'b1xx0"),
        (2, "{a ==? 2'bx1, b !=? 2'b0z}"),
    ]
    .iter()
    .enumerate()
    {
        out.push(simple(&format!("wildcard/{i}"), i % 2 == 0, false, *wy, false, e));
    }

    // --- system functions ----------------------------------------------------------------
    for (i, (wy, e)) in [
        (4u32, "$bits(a) + b"),
        (4, "$clog2(5) + a"),
        (4, "$size(a) + b"),
    ]
    .iter()
    .enumerate()
    {
        out.push(simple(&format!("sysf/{i}"), i < 2, false, *wy, false, e));
    }
}

// ------------------------------------------------------------------------------------------
// wide sub-family
// ------------------------------------------------------------------------------------------

pub const WIDE_WIDTHS: &[u32] = &[8, 31, 32, 33, 63, 64, 65, 127, 128, 129];

fn hexconst(w: u32, seed: u64) -> String {
    // deterministic non-trivial constant of width w
    let mut s = String::new();
    let mut x = seed.wrapping_mul(0x9E37_79B9_7F4A_7C15) | 1;
    let digits = w.div_ceil(4);
    for _ in 0..digits {
        x ^= x << 13;
        x ^= x >> 7;
        x ^= x << 17;
        s.push(char::from_digit((x & 0xf) as u32, 16).unwrap());
    }
    // mask the top digit to the width
    let top_bits = w - (digits - 1) * 4;
    let first = u32::from_str_radix(&s[0..1], 16).unwrap() & ((1 << top_bits) - 1);
    format!("{w}'h{}{}", char::from_digit(first, 16).unwrap(), &s[1..])
}

pub fn gen_wide(out: &mut Vec<Design>) {
    let ops: &[(&str, &str, bool)] = &[
        ("add", "+", false),
        ("sub", "-", false),
        ("mul", "*", false),
        ("div", "/", false),
        ("rem", "%", false),
        ("and", "&", false),
        ("or", "|", false),
        ("xor", "^", false),
        ("xnor", "~^", false),
        ("shl", "<<", true),
        ("shr", ">>", true),
        ("ashr", ">>>", true),
        ("ashl", "<<<", true),
        ("lt", "<:", false),
        ("ge", ">=", false),
        ("eq", "==", false),
    ];
    for &w in WIDE_WIDTHS {
        for s in [false, true] {
            for &(name, op, is_shift) in ops {
                if (op == ">>>" || op == "<<<") && !s {
                    continue;
                }
                let k1 = hexconst(w, w as u64 * 3 + 1);
                let k2 = hexconst(w, w as u64 * 7 + 2);
                let t = super::ty(w, s);
                // xa/xb: wide values that depend on every input bit and cross every chunk boundary
                let rhs = if is_shift {
                    // shift amounts: small, around the chunk boundary, and >= width
                    format!("xa {op} sh")
                } else {
                    format!("xa {op} xb")
                };
                let core = matches!(w, 33 | 64 | 65 | 128) && !s && matches!(name, "add" | "mul" | "shr" | "xor" | "lt" | "div")
                    || (w == 65 && s && matches!(name, "ashr" | "sub"))
                    || (w == 129 && matches!(name, "shr" | "shl" | "ashr" | "add"));
                out.push(
                    B::new("wide", format!("wide/{name}/w{w}/{}", super::sg(s)))
                        .core(core)
                        .inp("a", 2, false)
                        .inp("b", 2, false)
                        .out("yw", w, s)
                        .out("yf", 4, false)
                        .out("qw", w, s)
                        .l(&format!("var xa: {t};"))
                        .l(&format!("var xb: {t};"))
                        .l("var sh: logic<8>;")
                        .l(&format!("assign xa = ({{a repeat {}}} as {w}) ^ {k1};", w.div_ceil(2)))
                        .l(&format!("assign xb = ({{b, a}} as {w}) * {k2} + (b as {w});"))
                        .l(&format!(
                            "assign sh = case {{a, b}} {{\n    0: 8'd0,\n    1: 8'd1,\n    2: 8'd{},\n    3: 8'd{},\n    4: 8'd{},\n    5: 8'd31,\n    6: 8'd32,\n    7: 8'd33,\n    8: 8'd63,\n    9: 8'd64,\n    10: 8'd65,\n    11: 8'd{},\n    12: 8'd{},\n    13: 8'd200,\n    14: 8'd7,\n    default: 8'd255,\n}};",
                            w - 1,
                            w,
                            w + 1,
                            w / 2,
                            w / 2 + 1
                        ))
                        .l(&format!("assign yw = {rhs};"))
                        .l("assign yf = yw[3:0] ^ yw[msb:msb - 3] ^ {^yw, &yw, |yw, yw[msb / 2]};")
                        .l(&ff("qw", "0", &rhs))
                        .finish(),
                );
            }
            // wide selects / concat at chunk boundaries
            let t = super::ty(w, s);
            let k1 = hexconst(w, w as u64 * 11 + 5);
            out.push(
                B::new("wide", format!("wide/select/w{w}/{}", super::sg(s)))
                    .core(matches!(w, 64 | 65 | 129) && !s)
                    .inp("a", 2, false)
                    .inp("b", 2, false)
                    .out("y0", 4, false)
                    .out("y1", 4, false)
                    .out("y2", 8, false)
                    .out("yw", w, s)
                    .l(&format!("var xa: {t};"))
                    .l(&format!("assign xa = ({{a, b}} as {w}) * {k1};"))
                    .l(&format!("var r: {t};"))
                    .l("var c: logic<2>;")
                    .l(&format!(
                        "always_ff {{\n    if_reset {{\n        r = {k1};\n        c = 0;\n    }} else {{\n        c = c + 1;\n        r = {{xa[msb - 1:0], xa[msb] ^ a[0]}} ^ (c as {w});\n        r[{}+:2] = b;\n    }}\n}}",
                        w / 2 - 1
                    ))
                    .l(&format!("assign y0 = r[{}-:4];", w / 2 + 1))
                    .l(&format!("assign y1 = xa[{{a, b}} * {}+:4];", (w / 16).max(1)))
                    .l(&format!("assign y2 = {{xa[msb:msb - 3], r[{}:{}]}};", w / 2 + 2, w / 2 - 1))
                    .l("assign yw = xa ^ r;")
                    .finish(),
            );
        }
    }
}

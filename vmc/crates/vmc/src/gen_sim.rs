//! Shared by C18 / C36: analyse Veryl text and build `veryl_simulator` IR the way the
//! simulator's own tests and `veryl-cosim` do (analyze pass1/post/pass2/post → `build_ir`).
//!
//! Everything here must run on one thread per design (`core::run_isolated`): parser and
//! analyzer keep thread-local tables and `StrId`s are only meaningful on the thread that
//! created them.

use veryl_analyzer::ir as air;
use veryl_analyzer::{Analyzer, Context, symbol_table};
use veryl_metadata::Metadata;
use veryl_parser::Parser;
use veryl_simulator::Config;
use veryl_simulator::ir as sir;

pub const STACK: usize = 256 * 1024 * 1024;

/// Analyses `code` as project `prj`. Ok(ir) only when parser and analyzer report nothing at all.
pub fn analyze(code: &str) -> Result<air::Ir, String> {
    analyze_allowing(code, &[]).map(|(ir, _)| ir)
}

/// As `analyze`, but diagnostics of *warning* severity whose kind (variant name of
/// `AnalyzerError`) is listed in `allowed_warnings` do not reject the design; their kinds are
/// returned (sorted, deduplicated).
pub fn analyze_allowing(code: &str, allowed_warnings: &[&str]) -> Result<(air::Ir, Vec<String>), String> {
    symbol_table::clear();
    let metadata = Metadata::create_default("prj").map_err(|e| format!("metadata: {e}"))?;
    let parser = Parser::parse(code, &"").map_err(|e| format!("parse error: {e}"))?;
    let analyzer = Analyzer::new(&metadata);
    let mut context = Context::default();
    let mut errors = vec![];
    let mut ir = air::Ir::default();
    errors.append(&mut analyzer.analyze_pass1("prj", &parser.veryl));
    errors.append(&mut Analyzer::analyze_post_pass1());
    errors.append(&mut analyzer.analyze_pass2(&parser.veryl, &mut context, Some(&mut ir)));
    errors.append(&mut Analyzer::analyze_post_pass2(&ir));
    let kind_of = |e: &veryl_analyzer::AnalyzerError| {
        let d = format!("{e:?}");
        d.split(|c: char| !c.is_alphanumeric()).next().unwrap_or("?").to_string()
    };
    let mut tolerated: Vec<String> = vec![];
    let mut rejected: Vec<String> = vec![];
    for e in &errors {
        let k = kind_of(e);
        if !e.is_error() && allowed_warnings.contains(&k.as_str()) {
            tolerated.push(k);
        } else {
            rejected.push(format!("{k}: {e}"));
        }
    }
    if !rejected.is_empty() {
        rejected.sort();
        rejected.dedup();
        return Err(format!("analyzer diagnostics: {}", rejected.join(" | ")));
    }
    tolerated.sort();
    tolerated.dedup();
    Ok((ir, tolerated))
}

pub fn build(ir: &air::Ir, top: &str, config: &Config) -> Result<sir::Ir, String> {
    sir::build_ir(ir, top.into(), config).map_err(|e| format!("build_ir: {e}"))
}

/// The engine configurations `veryl_simulator` offers (`Config::all()`), split into the
/// in-process ones and the ones needing an external C compile.
pub fn configs(with_cc: bool) -> Vec<Config> {
    Config::all().into_iter().filter(|c| with_cc || !c.aot_c).collect()
}

pub fn config_name(c: &Config) -> String {
    format!(
        "{}{}{}{}",
        if c.aot_c { "cc" } else if c.use_jit { "jit" } else { "interp" },
        if c.use_4state { "+4state" } else { "+2state" },
        if c.disable_ff_opt { "+noffopt" } else { "" },
        if c.aot_c_event { "+event" } else { "" },
    )
}

/// Compile-time evaluation of a Veryl expression text through the real analyzer pipeline
/// (parse → `Conv` to `ir::Expression` → `eval_comptime` = gather_context / apply_context /
/// `eval_value`), the way the analyzer's own `calc_expression` test helper does it.
/// `context_width` = width contributed by the surrounding context (assignment target), if any.
/// Must run on a thread that is not shared with another analysis in flight.
pub fn eval_const_expr(text: &str, context_width: Option<usize>) -> Result<veryl_analyzer::value::Value, String> {
    use veryl_analyzer::conv::Conv;
    use veryl_parser::veryl_grammar_trait::Expression as SynExpr;
    use veryl_parser::veryl_walker::VerylWalker;

    let src = format!("module A {{\n    let a: bit = {text};\n}}\n");
    let parser = Parser::parse(&src, &"").map_err(|e| format!("parse error: {e}"))?;
    struct Extractor(Option<SynExpr>);
    impl VerylWalker for Extractor {
        fn expression(&mut self, arg: &SynExpr) {
            if self.0.is_none() {
                self.0 = Some(arg.clone());
            }
        }
    }
    let mut ex = Extractor(None);
    ex.veryl(&parser.veryl);
    let syn = ex.0.ok_or("no expression found")?;
    let mut context = Context::default();
    let mut x: air::Expression = Conv::conv(&mut context, &syn).map_err(|e| format!("conv: {e:?}"))?;
    let c = x.eval_comptime(&mut context, context_width);
    c.get_value().map(|v| v.clone()).map_err(|_| "expression has no compile-time value".to_string())
}

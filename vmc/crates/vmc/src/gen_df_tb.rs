//! DF part: native testbench sub-family (`#[test]` modules using `$tb::clock_gen` /
//! `$tb::reset_gen`, `$display`, `$assert`, `$assert_continue`, `$finish`) and the multi-top
//! projects used by C34 (tops sharing sub-modules with different parameters and layouts).

use super::{Design, ty};
use std::fmt::Write as _;

#[derive(Clone, Debug)]
pub struct TbCase {
    pub id: String,
    /// DUT + test module text.
    pub src: String,
    /// Name of the `#[test]` module (the simulation top).
    pub test: String,
    /// Variant: display | assert | assert_continue | finish_early | nested
    pub variant: &'static str,
}

const VARIANTS: &[&str] = &["display", "assert", "assert_continue", "finish_early", "nested"];

/// Wraps a DF design (plain `clock` / `reset` kinds only) into a native testbench that drives
/// every input letter twice in a fixed order.
pub fn tb_wrap(d: &Design, variant: &'static str) -> Option<TbCase> {
    if !d.src.contains("clk: input clock,") || !d.src.contains("rst: input reset,") {
        return None;
    }
    let test = format!("tb_{}", variant);
    let mut s = String::new();
    s.push_str(&d.src);
    let _ = writeln!(s, "#[test({test})]");
    let _ = writeln!(s, "module {test} {{");
    let _ = writeln!(s, "    inst clk: $tb::clock_gen;");
    let _ = writeln!(s, "    inst rst: $tb::reset_gen(clk);");
    for p in d.inputs.iter().chain(d.outputs.iter()) {
        let _ = writeln!(s, "    var {}: {};", p.name, ty(p.width, p.signed));
    }
    let _ = writeln!(s, "    inst dut: Top (");
    let _ = writeln!(s, "        clk: clk,");
    let _ = writeln!(s, "        rst: rst,");
    for p in d.inputs.iter().chain(d.outputs.iter()) {
        let _ = writeln!(s, "        {0}: {0},", p.name);
    }
    let _ = writeln!(s, "    );");
    // drive expression per input port from loop variable i
    let mut drive = String::new();
    let mut sh = 0;
    for p in &d.inputs {
        let _ = writeln!(
            drive,
            "{} = ((i / {}) % {}) as {};",
            p.name,
            1u32 << sh,
            1u32 << p.width,
            p.width
        );
        sh += p.width;
    }
    let n = 2 * d.letters();
    let fmt: Vec<String> = d.outputs.iter().map(|p| format!("{}=%h", p.name)).collect();
    let args: Vec<String> = d.outputs.iter().map(|p| p.name.clone()).collect();
    let disp = format!("$display(\"i=%d {}\", i, {});", fmt.join(" "), args.join(", "));
    let o0 = &d.outputs[0];
    let olast = d.outputs.last().unwrap();
    let ind = |t: &str, n: usize| -> String {
        t.lines().map(|l| format!("{}{l}\n", " ".repeat(n))).collect::<String>()
    };
    let _ = writeln!(s, "    initial {{");
    let _ = writeln!(s, "        rst.assert();");
    match variant {
        "display" => {
            let _ = writeln!(s, "        for i in 0..{n} {{");
            s.push_str(&ind(&drive, 12));
            let _ = writeln!(s, "            clk.next();");
            let _ = writeln!(s, "            {disp}");
            let _ = writeln!(s, "        }}");
            let _ = writeln!(s, "        $finish();");
        }
        "assert" => {
            // fatal assertion on a value that some designs do reach: verdict + message must agree
            let _ = writeln!(s, "        for i in 0..{n} {{");
            s.push_str(&ind(&drive, 12));
            let _ = writeln!(s, "            clk.next();");
            let _ = writeln!(
                s,
                "            $assert({0} != {1}'d{2}, \"{0} reached {2} at i=%d ({3}=%h)\", i, {3});",
                o0.name,
                o0.width,
                (1u64 << o0.width.min(8)) - 1 - (o0.width.min(8) as u64 % 2),
                olast.name
            );
            let _ = writeln!(s, "        }}");
            let _ = writeln!(s, "        $display(\"survived\");");
            let _ = writeln!(s, "        $finish();");
        }
        "assert_continue" => {
            let _ = writeln!(s, "        for i in 0..{n} {{");
            s.push_str(&ind(&drive, 12));
            let _ = writeln!(s, "            clk.next(2);");
            let _ = writeln!(
                s,
                "            $assert_continue({0}[0] == 1'b0, \"lsb of {0} set at i=%d: %b\", i, {0});",
                o0.name
            );
            let _ = writeln!(s, "        }}");
            let _ = writeln!(s, "        {disp_end}", disp_end = disp.replace("i=%d ", "end ").replace("\", i, ", "\", "));
            let _ = writeln!(s, "        $finish();");
        }
        "finish_early" => {
            let _ = writeln!(s, "        for i in 0..{n} {{");
            s.push_str(&ind(&drive, 12));
            let _ = writeln!(s, "            clk.next();");
            let _ = writeln!(s, "            {disp}");
            let _ = writeln!(s, "            if {}[0] && i >: 5 {{", olast.name);
            let _ = writeln!(s, "                $display(\"early finish at %d\", i);");
            let _ = writeln!(s, "                $finish();");
            let _ = writeln!(s, "            }}");
            let _ = writeln!(s, "        }}");
            let _ = writeln!(s, "        $assert(1'b0, \"ran to the end\");");
        }
        _ => {
            // nested control flow in the testbench, reset re-asserted mid-run
            let _ = writeln!(s, "        for i in 0..{n} {{");
            s.push_str(&ind(&drive, 12));
            let _ = writeln!(s, "            case i % 4 {{");
            let _ = writeln!(s, "                0: clk.next();");
            let _ = writeln!(s, "                1: clk.next(3);");
            let _ = writeln!(s, "                2: {{");
            let _ = writeln!(s, "                    if i == 10 {{");
            let _ = writeln!(s, "                        rst.assert();");
            let _ = writeln!(s, "                    }}");
            let _ = writeln!(s, "                    clk.next();");
            let _ = writeln!(s, "                }}");
            let _ = writeln!(s, "                default: clk.next(0);");
            let _ = writeln!(s, "            }}");
            let _ = writeln!(s, "            {disp}");
            let _ = writeln!(s, "        }}");
            let _ = writeln!(s, "        $finish();");
        }
    }
    let _ = writeln!(s, "    }}");
    let _ = writeln!(s, "}}");
    Some(TbCase { id: format!("tb/{}/{}", variant, d.id), src: s, test, variant })
}

/// Testbench sub-family over a list of DF designs (each design x every variant).
pub fn tb_family(designs: &[Design]) -> Vec<TbCase> {
    let mut v = vec![];
    for d in designs {
        for var in VARIANTS {
            if let Some(c) = tb_wrap(d, var) {
                v.push(c);
            }
        }
    }
    v
}

// ------------------------------------------------------------------------------------------
// multi-top projects (C34)
// ------------------------------------------------------------------------------------------

#[derive(Clone, Debug)]
pub struct MultiTop {
    pub id: String,
    pub src: String,
    /// Tops with the DF port signature (clk, rst, a:2, b:2 -> outputs); each is a `Design` whose
    /// `src` is the whole project text and whose `top` names the module.
    pub tops: Vec<Design>,
    /// Names of the `#[test]` modules (one per top) for the CLI leg.
    pub tests: Vec<String>,
}

fn multi_project(id: &str, leaf_body: &str) -> MultiTop {
    let mut s = String::new();
    let _ = write!(
        s,
        r#"module Leaf #(
    param W: u32 = 2,
    param K: u32 = 1,
) (
    clk: input clock,
    rst: input reset,
    x: input logic<W>,
    y: output logic<W>,
    r: output logic<W>,
) {{
{leaf_body}
}}
module Mid #(
    param K: u32 = 1,
) (
    clk: input clock,
    rst: input reset,
    a: input logic<2>,
    b: input logic<2>,
    y: output logic<3>,
    r: output logic<2>,
) {{
    var y0: logic<2>;
    var r1: logic<3>;
    inst l0: Leaf #(
        K: K,
    ) (
        clk,
        rst,
        x: a,
        y: y0,
        r,
    );
    inst l1: Leaf #(
        W: 3,
        K: K + 1,
    ) (
        clk,
        rst,
        x: {{b, y0[0]}},
        y,
        r: r1,
    );
}}
"#
    );
    // tops: (name, body, outputs).  Every sub-module variant recurs under >= 2 tops as a
    // topmost instance (the cross-test reuse boundary): Leaf#(K=3) in A,B,C; Leaf#(W=3,K=5) in
    // B,C,D; Mid#(1) in A,D (twice in D); Mid#(2) in B,C — with different instance orders.
    let tops: Vec<(&str, &str, Vec<(&str, u32)>)> = vec![
        ("TopA", "    inst m: Mid #(\n        K: 1,\n    ) (\n        clk,\n        rst,\n        a: a,\n        b: b,\n        y: o0,\n        r: o1,\n    );\n    var ly: logic<2>;\n    inst l: Leaf #(\n        K: 3,\n    ) (\n        clk,\n        rst,\n        x: a ^ b,\n        y: ly,\n        r: o2,\n    );\n    assign o3 = ly + o1;\n", vec![("o0", 3), ("o1", 2), ("o2", 2), ("o3", 2)]),
        ("TopB", "    var ly: logic<2>;\n    inst l: Leaf #(\n        K: 3,\n    ) (\n        clk,\n        rst,\n        x: a ^ b,\n        y: ly,\n        r: o2,\n    );\n    inst m: Mid #(\n        K: 2,\n    ) (\n        clk,\n        rst,\n        a: a,\n        b: b,\n        y: o0,\n        r: o1,\n    );\n    var wy: logic<3>;\n    inst w: Leaf #(\n        W: 3,\n        K: 5,\n    ) (\n        clk,\n        rst,\n        x: {a, b[0]},\n        y: wy,\n        r: o4,\n    );\n    assign o3 = ly + o1 + wy[1:0];\n", vec![("o0", 3), ("o1", 2), ("o2", 2), ("o3", 2), ("o4", 3)]),
        ("TopC", "    var wy: logic<3>;\n    inst w: Leaf #(\n        W: 3,\n        K: 5,\n    ) (\n        clk,\n        rst,\n        x: {b, a[0]},\n        y: wy,\n        r: o4,\n    );\n    var ly: logic<2>;\n    inst l: Leaf #(\n        K: 3,\n    ) (\n        clk,\n        rst,\n        x: a + b,\n        y: ly,\n        r: o2,\n    );\n    inst m: Mid #(\n        K: 2,\n    ) (\n        clk,\n        rst,\n        a: b,\n        b: a,\n        y: o0,\n        r: o1,\n    );\n    assign o3 = ly ^ o1 ^ wy[2:1];\n", vec![("o0", 3), ("o1", 2), ("o2", 2), ("o3", 2), ("o4", 3)]),
        ("TopD", "    inst m0: Mid #(\n        K: 1,\n    ) (\n        clk,\n        rst,\n        a: a,\n        b: b,\n        y: o0,\n        r: o1,\n    );\n    inst m1: Mid #(\n        K: 1,\n    ) (\n        clk,\n        rst,\n        a: b,\n        b: o1,\n        y: o2,\n        r: o3,\n    );\n    var wy: logic<3>;\n    inst w: Leaf #(\n        W: 3,\n        K: 5,\n    ) (\n        clk,\n        rst,\n        x: {a[0], b},\n        y: wy,\n        r: o4,\n    );\n    assign o5 = wy ^ o0;\n", vec![("o0", 3), ("o1", 2), ("o2", 3), ("o3", 2), ("o4", 3), ("o5", 3)]),
    ];
    let mut designs = vec![];
    let mut tests = vec![];
    for (name, body, outs) in &tops {
        let _ = writeln!(s, "module {name} (");
        let _ = writeln!(s, "    clk: input clock,\n    rst: input reset,\n    a: input logic<2>,\n    b: input logic<2>,");
        for (o, w) in outs {
            let _ = writeln!(s, "    {o}: output {},", ty(*w, false));
        }
        let _ = writeln!(s, ") {{\n{body}}}");
    }
    // test modules for the CLI leg
    for (name, _, outs) in &tops {
        let t = format!("t_{}", name.to_lowercase());
        let _ = writeln!(s, "#[test({t})]\nmodule {t} {{");
        let _ = writeln!(s, "    inst clk: $tb::clock_gen;\n    inst rst: $tb::reset_gen(clk);");
        let _ = writeln!(s, "    var a: logic<2>;\n    var b: logic<2>;");
        for (o, w) in outs {
            let _ = writeln!(s, "    var {o}: {};", ty(*w, false));
        }
        let _ = writeln!(s, "    inst dut: {name} (\n        clk: clk,\n        rst: rst,\n        a: a,\n        b: b,");
        for (o, _) in outs {
            let _ = writeln!(s, "        {o}: {o},");
        }
        let _ = writeln!(s, "    );");
        let fmt: Vec<String> = outs.iter().map(|(o, _)| format!("{o}=%h")).collect();
        let args: Vec<String> = outs.iter().map(|(o, _)| o.to_string()).collect();
        let _ = writeln!(
            s,
            "    initial {{\n        rst.assert();\n        for i in 0..40 {{\n            a = ((i * 7) % 4) as 2;\n            b = ((i / 3) % 4) as 2;\n            clk.next();\n            $display(\"{name} i=%d {}\", i, {});\n        }}\n        $assert(o0 != 0 || o1 != 0 || o2 != 0, \"all zero at end\");\n        $finish();\n    }}\n}}",
            fmt.join(" "),
            args.join(", ")
        );
        tests.push(t);
    }
    for (name, _, outs) in &tops {
        designs.push(Design {
            id: format!("{id}/{name}"),
            class: "multi",
            top: name.to_string(),
            src: s.clone(),
            clk: "clk".into(),
            rst: "rst".into(),
            inputs: vec![
                super::Port { name: "a".into(), width: 2, signed: false },
                super::Port { name: "b".into(), width: 2, signed: false },
            ],
            outputs: outs
                .iter()
                .map(|(o, w)| super::Port { name: o.to_string(), width: *w, signed: false })
                .collect(),
            core: true,
            tags: vec![],
        });
    }
    MultiTop { id: id.to_string(), src: s, tops: designs, tests }
}

pub fn multi_top_projects() -> Vec<MultiTop> {
    vec![
        // every Leaf holds ONE state bit so that each top keeps <= 4 state bits
        multi_project(
            "multi/acc",
            "    var t: logic;\n    assign y = x + K;\n    always_ff {\n        if_reset {\n            t = 0;\n        } else {\n            t = t ^ x[0] ^ ((K % 2) as 1);\n        }\n    }\n    assign r = if t ? y : x ^ (K as W);",
        ),
        multi_project(
            "multi/comb",
            "    var t: logic<W>;\n    var s: logic;\n    always_comb {\n        t = x;\n        t = t ^ (K as W);\n        if x[0] ^ s {\n            t = t + 1;\n        }\n    }\n    assign y = t;\n    always_ff {\n        if_reset {\n            s = (K % 2) as 1;\n        } else if t[0] {\n            s = ~s;\n        }\n    }\n    assign r = t & {s repeat W};",
        ),
    ]
}

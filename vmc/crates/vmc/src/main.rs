//! vmc — bounded exhaustive exploration driver for the veryl properties C01..C36.
//!
//! Usage: vmc check <ID> [quick|thorough]
//!        vmc replay <path>
//!        vmc worker <kind> ...        (internal subprocess entry points)

mod checks;
mod core;
mod e5;
mod fixture;
mod proj;

use crate::core::{Ctx, Tier};

fn main() {
    let args: Vec<String> = std::env::args().collect();
    if args.len() < 2 {
        eprintln!("usage: vmc check <ID> [quick|thorough] | vmc replay <path> | vmc list");
        std::process::exit(2);
    }
    match args[1].as_str() {
        "list" => {
            for (id, _) in checks::registry() {
                println!("{id}");
            }
        }
        "check" => {
            // The cc backend splits emitted C sources above 1.5 MB into several translation units;
            // at this commit the split leaves the `cg_cmp_N` helpers undefined in the entry unit
            // and the whole PROCESS dies with "undefined symbol: cg_cmp_0" the first time such a
            // shared object is used (seen in C02 thorough on the largest designs). That would
            // take the explorer down with it, so splitting is pinned off for in-process engines;
            // the defect is recorded in DESIGN.md section 0.2 (not judged by any check).
            if std::env::var_os("VERYL_AOT_C_TU_SPLIT").is_none() {
                unsafe { std::env::set_var("VERYL_AOT_C_TU_SPLIT", "1") };
            }
            let id = args.get(2).cloned().unwrap_or_default();
            let tier = match args
                .get(3)
                .cloned()
                .or_else(|| std::env::var("VERIF_TIER").ok())
                .as_deref()
            {
                Some("thorough") => Tier::Thorough,
                _ => Tier::Quick,
            };
            let Some((_, f)) = checks::registry().into_iter().find(|(x, _)| *x == id) else {
                eprintln!("unknown check {id}");
                std::process::exit(2);
            };
            let ctx = Ctx::new(&id, tier);
            let rep = match std::panic::catch_unwind(std::panic::AssertUnwindSafe(|| f(&ctx))) {
                Ok(r) => r,
                Err(p) => {
                    let mut r = core::Report::new(core::Level::Exploration);
                    r.machinery(format!(
                        "check engine panicked: {} at {:?}",
                        core::panic_message(p),
                        core::take_panic_loc()
                    ));
                    r
                }
            };
            let code = core::finish(&ctx, rep);
            drop(ctx);
            std::process::exit(code);
        }
        "replay" => {
            let path = args.get(2).cloned().unwrap_or_default();
            let code = checks::replay(&path);
            std::process::exit(code);
        }
        "worker" => {
            let code = checks::worker(&args[2..]);
            std::process::exit(code);
        }
        x => {
            eprintln!("unknown subcommand {x}");
            std::process::exit(2);
        }
    }
}

//! Shared text-level generators for C08, C09, C10, C11, C12 and C23:
//!
//! * corpus loader (`testcases/veryl`, std sources, `testcases/error`),
//! * lexical items of a source text (ordinary tokens from the real parser — their byte spans are
//!   re-validated against the text here — and comments found by an own, boring gap scanner that
//!   shares no code with `split_comment_token`),
//! * the layout-deviation generator (replace the whitespace of inter-item gaps by letters),
//! * thin wrappers running the real parser / formatter / analyzer on a fresh thread.

use crate::core::*;
use std::path::{Path, PathBuf};
use veryl_analyzer::Analyzer;
use veryl_formatter::Formatter;
use veryl_metadata::{Format, Metadata, NewlineStyle};
use veryl_parser::Parser;
use veryl_parser::token_collector::TokenCollector;
use veryl_parser::veryl_walker::VerylWalker;

/// A source path no earlier parse of this process used. veryl keys per-file tables (attributes,
/// doc comments, text) by path and keeps them for the life of the thread; in the CLI every file
/// has its own path and is handled once per process, so the harness must not reuse a path either.
pub fn fresh_path() -> String {
    static N: std::sync::atomic::AtomicU64 = std::sync::atomic::AtomicU64::new(0);
    format!("vmc_{}.veryl", N.fetch_add(1, std::sync::atomic::Ordering::Relaxed))
}

pub const STACK: usize = 8 << 20; // the CLI main thread's stack
pub const BIG_STACK: usize = 64 << 20; // for harness-side tokenisation (never an oracle)

// ------------------------------------------------------------------------------------ corpus

#[derive(Clone, Debug)]
pub struct CorpusFile {
    /// Short stable name: `veryl/01_number.veryl`, `std/fifo/fifo.veryl`, `error/x.veryl`.
    pub name: String,
    pub path: PathBuf,
    pub text: String,
}

fn collect(dir: &Path, prefix: &str, out: &mut Vec<CorpusFile>) {
    for e in walkdir::WalkDir::new(dir).sort_by_file_name().into_iter().flatten() {
        if !e.file_type().is_file() {
            continue;
        }
        let p = e.path();
        if p.extension().and_then(|x| x.to_str()) != Some("veryl") {
            continue;
        }
        let Ok(text) = std::fs::read_to_string(p) else {
            continue;
        };
        let rel = p.strip_prefix(dir).unwrap().to_string_lossy().to_string();
        out.push(CorpusFile {
            name: format!("{prefix}/{rel}"),
            path: p.to_path_buf(),
            text,
        });
    }
}

/// Corpus in a fixed order: testcases/veryl, then std, then (optionally) testcases/error.
pub fn load_corpus(with_std: bool, with_error: bool) -> Vec<CorpusFile> {
    let root = repo_root();
    let mut out = vec![];
    collect(&root.join("testcases/veryl"), "veryl", &mut out);
    if with_std {
        collect(&root.join("crates/std/veryl/src"), "std", &mut out);
    }
    if with_error {
        collect(&root.join("testcases/error"), "error", &mut out);
    }
    out
}

/// Std sources (for preloading `$std` into the analyzer of a fresh thread).
pub fn load_std() -> Vec<CorpusFile> {
    let mut out = vec![];
    collect(&repo_root().join("crates/std/veryl/src"), "std", &mut out);
    out
}

/// Deterministic order "smallest first" (ties by name); `seed` only rotates equal-size shards.
pub fn sort_smallest_first(files: &mut [CorpusFile]) {
    files.sort_by(|a, b| (a.text.len(), &a.name).cmp(&(b.text.len(), &b.name)));
}

// ------------------------------------------------------------------------------------ tokens

#[derive(Clone, Debug, Default, PartialEq, Eq)]
pub struct Tok {
    pub text: String,
    pub pos: usize,
    pub length: usize,
    pub line: u32,
    pub column: u32,
    pub end_line: u32,
    pub end_column: u32,
    /// true for tokens delivered through `VerylToken::comments`.
    pub comment: bool,
}

/// Parses `text` with the real parser on the *current* thread and returns the collected tokens
/// (`TokenCollector::new(include_comments)`), with the start token (empty text) removed.
/// Callers run this inside `run_isolated`.
pub fn collect_tokens_here(text: &str, include_comments: bool) -> Result<Vec<Tok>, String> {
    let parser = Parser::parse(text, &fresh_path()).map_err(|e| format!("{e}"))?;
    Ok(collect_tokens_of(&parser, include_comments))
}

pub fn collect_tokens_of(parser: &Parser, include_comments: bool) -> Vec<Tok> {
    // Which collected tokens are comments? TokenCollector pushes `token` then its comments; the
    // flag is recovered with a second walker that records the structure.
    struct Marking {
        out: Vec<(veryl_parser::veryl_token::Token, bool)>,
        include_comments: bool,
    }
    impl VerylWalker for Marking {
        fn veryl_token(&mut self, arg: &veryl_parser::veryl_token::VerylToken) {
            self.out.push((arg.token, false));
            if self.include_comments {
                for c in &arg.comments {
                    self.out.push((*c, true));
                }
            }
        }
    }
    let mut collector = TokenCollector::new(include_comments);
    collector.veryl(&parser.veryl);
    let mut marking = Marking {
        out: vec![],
        include_comments,
    };
    marking.veryl(&parser.veryl);
    assert_eq!(collector.tokens.len(), marking.out.len());
    let mut out = Vec::with_capacity(collector.tokens.len());
    for (i, t) in collector.tokens.iter().enumerate() {
        assert_eq!(t.id, marking.out[i].0.id);
        let comment = marking.out[i].1;
        let text = t.to_string();
        if i == 0 && !comment && text.is_empty() && t.length == 0 {
            continue; // the start token
        }
        out.push(Tok {
            text,
            pos: t.pos as usize,
            length: t.length as usize,
            line: t.line,
            column: t.column,
            end_line: t.end_line(),
            end_column: t.end_column(),
            comment,
        });
    }
    out
}

/// Fresh-thread tokenisation; `Err` = parser rejected (message) or panicked ("panic: ...").
pub fn tokens_isolated(text: &str, include_comments: bool, stack: usize) -> Result<Vec<Tok>, String> {
    let t = text.to_string();
    match run_isolated(stack, move || collect_tokens_here(&t, include_comments)) {
        Ok(x) => x,
        Err(p) => Err(format!("panic: {p}")),
    }
}

// ------------------------------------------------------------------------------------ items

#[derive(Clone, Copy, Debug, PartialEq, Eq)]
pub enum ItemKind {
    Token,
    LineComment,  // `// ...` without its line terminator
    BlockComment, // `/* ... */`
}

#[derive(Clone, Copy, Debug, PartialEq, Eq)]
pub struct Item {
    pub start: usize,
    pub end: usize,
    pub kind: ItemKind,
}

/// Scans a gap (text between two ordinary tokens: whitespace and comments only) for comments.
/// Returns `None` if anything else is found (then the caller's token spans are wrong).
pub fn scan_gap(text: &str, base: usize) -> Option<Vec<Item>> {
    let b = text.as_bytes();
    let mut i = 0;
    let mut out = vec![];
    while i < b.len() {
        let c = b[i];
        if c == b' ' || c == b'\t' || c == b'\n' || c == b'\r' || c == 0x0b || c == 0x0c {
            i += 1;
        } else if c == b'/' && i + 1 < b.len() && b[i + 1] == b'/' {
            let mut j = i;
            while j < b.len() && b[j] != b'\n' {
                j += 1;
            }
            // the terminator (`\n`, or `\r\n`) is not part of the item
            let mut e = j;
            if e > i && b[e - 1] == b'\r' {
                e -= 1;
            }
            out.push(Item {
                start: base + i,
                end: base + e,
                kind: ItemKind::LineComment,
            });
            i = j;
        } else if c == b'/' && i + 1 < b.len() && b[i + 1] == b'*' {
            let rest = &text[i + 2..];
            let close = rest.find("*/")?;
            let e = i + 2 + close + 2;
            out.push(Item {
                start: base + i,
                end: base + e,
                kind: ItemKind::BlockComment,
            });
            i = e;
        } else {
            // other Unicode whitespace is accepted by the lexer's `\s`; tolerate it
            let ch = text[i..].chars().next().unwrap();
            if ch.is_whitespace() {
                i += ch.len_utf8();
            } else {
                return None;
            }
        }
    }
    Some(out)
}

/// Lexical items of `text` given the ordinary tokens reported by the parser (validated here).
pub fn items_from_tokens(text: &str, toks: &[Tok]) -> Result<Vec<Item>, String> {
    let mut out = vec![];
    let mut at = 0usize;
    for t in toks.iter().filter(|t| !t.comment) {
        if t.pos < at || t.pos + t.length > text.len() || text.get(t.pos..t.pos + t.length) != Some(t.text.as_str()) {
            return Err(format!("token {:?} at {} does not match the text", t.text, t.pos));
        }
        let gap = scan_gap(&text[at..t.pos], at).ok_or_else(|| format!("gap before {} is not whitespace/comments", t.pos))?;
        out.extend(gap);
        out.push(Item {
            start: t.pos,
            end: t.pos + t.length,
            kind: ItemKind::Token,
        });
        at = t.pos + t.length;
    }
    let gap = scan_gap(&text[at..], at).ok_or_else(|| "trailing gap is not whitespace/comments".to_string())?;
    out.extend(gap);
    Ok(out)
}

/// A source text cut into items; gap `g` (0..=n) is the whitespace before item `g`
/// (gap n = after the last item).
#[derive(Clone, Debug)]
pub struct Layout {
    pub text: String,
    pub items: Vec<Item>,
}

impl Layout {
    pub fn new(text: &str) -> Result<Layout, String> {
        let toks = tokens_isolated(text, false, BIG_STACK)?;
        let items = items_from_tokens(text, &toks)?;
        Ok(Layout {
            text: text.to_string(),
            items,
        })
    }
    /// From tokens (without comments) already collected for `text`.
    pub fn from_tokens(text: &str, toks: &[Tok]) -> Result<Layout, String> {
        let items = items_from_tokens(text, toks)?;
        Ok(Layout {
            text: text.to_string(),
            items,
        })
    }
    pub fn n_gaps(&self) -> usize {
        self.items.len() + 1
    }
    pub fn n_tokens(&self) -> usize {
        self.items.iter().filter(|x| x.kind == ItemKind::Token).count()
    }
    pub fn gap_span(&self, g: usize) -> (usize, usize) {
        let s = if g == 0 { 0 } else { self.items[g - 1].end };
        let e = if g == self.items.len() { self.text.len() } else { self.items[g].start };
        (s, e)
    }
    pub fn item_text(&self, i: usize) -> &str {
        &self.text[self.items[i].start..self.items[i].end]
    }
    /// Would an empty gap `g` glue two word-like items together (certainly another token stream)?
    pub fn empty_gap_merges(&self, g: usize) -> bool {
        if g == 0 || g == self.items.len() {
            return false;
        }
        let l = self.item_text(g - 1).chars().next_back().unwrap_or(' ');
        let r = self.item_text(g).chars().next().unwrap_or(' ');
        let word = |c: char| c.is_alphanumeric() || c == '_' || c == '$' || c == '\'';
        word(l) && word(r)
    }
    /// Is letter `letter` admissible at gap `g`? (`""` only where the neighbours cannot merge; the
    /// parser is the final judge for punctuation.)
    pub fn admissible(&self, g: usize, letter: &str) -> bool {
        !(letter.is_empty() && self.empty_gap_merges(g))
    }
    fn letter_at(&self, g: usize, letter: &str) -> String {
        // A line comment must keep its terminator, or it swallows what follows.
        if g > 0 && self.items[g - 1].kind == ItemKind::LineComment && !(letter.starts_with('\n') || letter.starts_with("\r\n")) {
            format!("\n{letter}")
        } else {
            letter.to_string()
        }
    }
    /// Text with the listed gaps replaced (`edits` sorted by gap index, no duplicates).
    pub fn with_gaps(&self, edits: &[(usize, &str)]) -> String {
        let mut out = String::with_capacity(self.text.len() + 128);
        let mut k = 0;
        for g in 0..self.n_gaps() {
            let (s, e) = self.gap_span(g);
            if k < edits.len() && edits[k].0 == g {
                out.push_str(&self.letter_at(g, edits[k].1));
                k += 1;
            } else {
                out.push_str(&self.text[s..e]);
            }
            if g < self.items.len() {
                out.push_str(self.item_text(g));
            }
        }
        out
    }
    /// Every gap replaced by the same letter (where admissible; other gaps keep a single space).
    pub fn uniform(&self, letter: &str) -> String {
        let mut out = String::new();
        for g in 0..self.n_gaps() {
            let l = if self.admissible(g, letter) { letter } else { " " };
            out.push_str(&self.letter_at(g, l));
            if g < self.items.len() {
                out.push_str(self.item_text(g));
            }
        }
        out
    }
    /// Text with the listed gaps replaced and the listed items replaced (both sorted by index).
    pub fn compose(&self, gap_edits: &[(usize, &str)], item_edits: &[(usize, String)]) -> String {
        let mut out = String::with_capacity(self.text.len() + 256);
        let (mut k, mut m) = (0, 0);
        for g in 0..self.n_gaps() {
            let (s, e) = self.gap_span(g);
            if k < gap_edits.len() && gap_edits[k].0 == g {
                out.push_str(&self.letter_at(g, gap_edits[k].1));
                k += 1;
            } else {
                out.push_str(&self.text[s..e]);
            }
            if g < self.items.len() {
                if m < item_edits.len() && item_edits[m].0 == g {
                    out.push_str(&item_edits[m].1);
                    m += 1;
                } else {
                    out.push_str(self.item_text(g));
                }
            }
        }
        out
    }
    /// Text with item `i` replaced.
    pub fn with_item(&self, i: usize, new_text: &str) -> String {
        let it = self.items[i];
        format!("{}{}{}", &self.text[..it.start], new_text, &self.text[it.end..])
    }
}

/// C08/C09 layout letters.
pub const LAYOUT_LETTERS: [&str; 10] = [
    "",
    " ",
    "\n",
    "\n\n\n",
    "\r\n",
    "\t",
    " /* c */ ",
    " // c\n",
    "\n/// d\n",
    "                                                                                ",
];

/// Position-hostile letters (C12, C23): multi-byte text, several comments per line and per gap,
/// multi-line comments followed by more text on the line, CRLF, tabs.
pub const HOSTILE_LETTERS: [&str; 13] = [
    " /* é漢 */ ",
    " /* a */ /* é */ /* c */ ",
    " // é漢\n",
    "\n// a\n// é\n  /* b */ /* ü */ ",
    " /* a\n é */ /* b */ ",
    " /* a\r\n é */\t/* b */ ",
    " // c\r\n",
    "\t/* é */\t",
    " /* é\n*/ // x\n /* y */ ",
    "\r\n\r\n",
    " /*é*//*ü*/",
    " /** d */ /// é\n",
    // a multi-line comment whose LAST line carries several surplus bytes, directly followed by the
    // next tokens: a column restarted from a byte length after the line break glues or shifts them
    " /* a\n 漢漢é */ ",
];

pub fn letter_name(l: &str) -> String {
    if l.len() == 80 && l.chars().all(|c| c == ' ') {
        "<80 spaces>".to_string()
    } else {
        format!("{l:?}")
    }
}

// ------------------------------------------------------------------------------------ format

#[derive(Clone, Copy, Debug, PartialEq, Eq)]
pub struct FmtSetting {
    pub indent_width: usize,
    pub max_width: usize,
    pub vertical_align: bool,
    pub newline_style: u8, // 0 auto, 1 native, 2 unix, 3 windows
}

impl FmtSetting {
    pub const DEFAULT: FmtSetting = FmtSetting {
        indent_width: 4,
        max_width: 120,
        vertical_align: true,
        newline_style: 0,
    };
    pub fn newline_name(&self) -> &'static str {
        ["auto", "native", "unix", "windows"][self.newline_style as usize]
    }
    pub fn to_format(&self) -> Format {
        Format {
            indent_width: self.indent_width,
            max_width: self.max_width,
            vertical_align: self.vertical_align,
            newline_style: match self.newline_style {
                0 => NewlineStyle::Auto,
                1 => NewlineStyle::Native,
                2 => NewlineStyle::Unix,
                _ => NewlineStyle::Windows,
            },
        }
    }
    pub fn to_toml(&self) -> String {
        format!(
            "[format]\nindent_width = {}\nmax_width = {}\nvertical_align = {}\nnewline_style = \"{}\"\n",
            self.indent_width,
            self.max_width,
            self.vertical_align,
            self.newline_name()
        )
    }
    pub fn json(&self) -> serde_json::Value {
        serde_json::json!({"indent_width": self.indent_width, "max_width": self.max_width,
            "vertical_align": self.vertical_align, "newline_style": self.newline_name()})
    }
    pub fn from_json(v: &serde_json::Value) -> FmtSetting {
        FmtSetting {
            indent_width: v["indent_width"].as_u64().unwrap_or(4) as usize,
            max_width: v["max_width"].as_u64().unwrap_or(120) as usize,
            vertical_align: v["vertical_align"].as_bool().unwrap_or(true),
            newline_style: match v["newline_style"].as_str().unwrap_or("auto") {
                "native" => 1,
                "unix" => 2,
                "windows" => 3,
                _ => 0,
            },
        }
    }
    /// indent {2,4} x max_width {40,120} x vertical_align x newline {auto,native,unix,windows}.
    pub fn all() -> Vec<FmtSetting> {
        let mut v = vec![];
        for &newline_style in &[0u8, 2, 3, 1] {
            for &vertical_align in &[true, false] {
                for &max_width in &[120usize, 40] {
                    for &indent_width in &[4usize, 2] {
                        v.push(FmtSetting {
                            indent_width,
                            max_width,
                            vertical_align,
                            newline_style,
                        });
                    }
                }
            }
        }
        v
    }
}

pub fn metadata_with(fmt: &FmtSetting) -> Metadata {
    let mut m = Metadata::create_default("prj").expect("default metadata");
    m.format = fmt.to_format();
    m
}

#[derive(Clone, Debug, PartialEq, Eq)]
pub enum FmtOutcome {
    Rejected(String),
    Panic(String),
    Ok(String),
}

/// What `veryl fmt` does for one file (crates/veryl/src/cmd_fmt.rs), on the current thread.
pub fn fmt_here(text: &str, fmt: &FmtSetting) -> Result<String, String> {
    let metadata = metadata_with(fmt);
    let parser = Parser::parse(text, &fresh_path()).map_err(|e| format!("{e}"))?;
    let analyzer = Analyzer::new(&metadata);
    let _ = analyzer.analyze_pass1("prj", &parser.veryl);
    let mut formatter = Formatter::new(&metadata);
    formatter.format(&parser.veryl, text);
    Ok(formatter.as_str().to_string())
}

/// `fmt_here` on a fresh 8 MiB thread.
pub fn fmt_isolated(text: &str, fmt: &FmtSetting) -> FmtOutcome {
    let t = text.to_string();
    let f = *fmt;
    match run_isolated(STACK, move || fmt_here(&t, &f)) {
        Ok(Ok(s)) => FmtOutcome::Ok(s),
        Ok(Err(e)) => FmtOutcome::Rejected(e),
        Err(p) => FmtOutcome::Panic(format!("{p} at {:?}", take_panic_loc())),
    }
}

// ------------------------------------------------------------------------------------ misc

/// Position (1-based line, 1-based *character* column) of byte offset `pos`; lines end at `\n`.
/// Boring on purpose: this is the reference for C12.
pub fn line_col_of(text: &str, pos: usize) -> (u32, u32) {
    let before = &text[..pos];
    let line = before.bytes().filter(|&b| b == b'\n').count() as u32 + 1;
    let line_start = before.rfind('\n').map(|x| x + 1).unwrap_or(0);
    let col = before[line_start..].chars().count() as u32 + 1;
    (line, col)
}

/// Byte offset of (line, character column), if that position exists in `text`.
pub fn offset_of(text: &str, line: u32, col: u32) -> Option<usize> {
    if line == 0 || col == 0 {
        return None;
    }
    let mut start = 0usize;
    for _ in 1..line {
        let nl = text[start..].find('\n')?;
        start += nl + 1;
    }
    let rest = &text[start..];
    let line_text = match rest.find('\n') {
        Some(n) => &rest[..=n],
        None => rest,
    };
    let mut it = line_text.char_indices();
    for _ in 1..col {
        it.next()?;
    }
    match it.next() {
        Some((o, _)) => Some(start + o),
        None => {
            if line_text.chars().count() as u32 + 1 == col && !line_text.ends_with('\n') {
                Some(start + line_text.len())
            } else {
                None
            }
        }
    }
}

pub fn clip(s: &str, n: usize) -> String {
    if s.len() <= n {
        s.to_string()
    } else {
        let mut e = n;
        while !s.is_char_boundary(e) {
            e -= 1;
        }
        format!("{}…(+{} bytes)", &s[..e], s.len() - e)
    }
}

/// Runs `f` over `items` in parallel in chunks, stopping between chunks once `deadline` passed.
/// Returns the results of the completed prefix and whether everything was covered.
pub fn par_map_budget<T: Sync, R: Send>(
    ctx: &Ctx,
    deadline: f64,
    items: &[T],
    chunk: usize,
    f: impl Fn(&T) -> R + Sync,
) -> (Vec<R>, bool) {
    let mut out = Vec::with_capacity(items.len());
    let mut done = 0usize;
    while done < items.len() {
        if ctx.elapsed() > deadline {
            return (out, false);
        }
        let end = (done + chunk).min(items.len());
        out.extend(par_map(&items[done..end], &f));
        done = end;
    }
    (out, true)
}

/// Runs `f` on every item, `batch` items per *fresh thread* (veryl's tables are thread-local; the
/// CLI itself handles many files on one thread, so sharing a thread between a few variants is
/// what production does). A panic is caught per item; the rest of that batch then continues on
/// another fresh thread so that poisoned thread-local state cannot leak into later items.
/// Batches run in parallel; results are in input order. `Err` = panic message.
pub fn batch_isolated<T, R>(stack: usize, batch: usize, items: &[T], f: fn(&T) -> R) -> Vec<Result<R, String>>
where
    T: Clone + Send + Sync + 'static,
    R: Send + 'static,
{
    let chunks: Vec<&[T]> = items.chunks(batch.max(1)).collect();
    let per_chunk: Vec<Vec<Result<R, String>>> = par_map(&chunks, |chunk| {
        let mut out: Vec<Result<R, String>> = Vec::with_capacity(chunk.len());
        while out.len() < chunk.len() {
            let rest: Vec<T> = chunk[out.len()..].to_vec();
            let part = run_isolated(stack, move || {
                let mut rs: Vec<Result<R, String>> = Vec::with_capacity(rest.len());
                for it in &rest {
                    match std::panic::catch_unwind(std::panic::AssertUnwindSafe(|| f(it))) {
                        Ok(r) => rs.push(Ok(r)),
                        Err(p) => {
                            rs.push(Err(format!("{} at {:?}", panic_message(p), take_panic_loc())));
                            break; // continue on a fresh thread
                        }
                    }
                }
                rs
            });
            match part {
                Ok(rs) => out.extend(rs),
                Err(e) => out.push(Err(e)), // the thread itself died (stack overflow is fatal anyway)
            }
        }
        out
    });
    per_chunk.into_iter().flatten().collect()
}

/// The text the parser really sees: `Parser::parse` works on a newline-terminated copy of its
/// input (crates/parser/src/parser.rs) and registers that copy as "the source" in the text table,
/// so all positions are positions in this text.
pub fn parser_view(text: &str) -> String {
    if text.ends_with('\n') {
        text.to_string()
    } else {
        format!("{text}\n")
    }
}

/// A comment as my own scanner sees it: byte span *including* the line terminator of a line
/// comment (that is how the grammar's CommentsTerm and the comment tokens define the text).
#[derive(Clone, Debug, PartialEq, Eq)]
pub struct TrueComment {
    pub start: usize,
    pub end: usize,
}

/// Comments inside a gap of `src` (gap = bytes `from..to`, only whitespace and comments).
pub fn true_comments(src: &str, from: usize, to: usize) -> Option<Vec<TrueComment>> {
    let items = scan_gap(&src[from..to], from)?;
    let b = src.as_bytes();
    Some(
        items
            .into_iter()
            .map(|it| {
                let mut end = it.end;
                if it.kind == ItemKind::LineComment {
                    // up to and including the '\n' (a '\r' before it belongs to the text as well)
                    while end < to && b[end] != b'\n' {
                        end += 1;
                    }
                    if end < to {
                        end += 1;
                    }
                }
                TrueComment { start: it.start, end }
            })
            .collect(),
    )
}

//! `vmc worker sim` — subprocess machine server (one process per env-toggle set / per isolated
//! analysis).  Line protocol on stdin / the ORIGINAL stdout; the process's fd 1 is re-pointed to
//! fd 2 so that anything veryl prints goes to the worker's log, never into the protocol.
//!
//! Requests:
//!   load <hex(json)>     json = {src, top, clk, rst, inputs:[[name,width]], outputs:[name],
//!                                config:"jit+4st"..., probe:bool,
//!                                cache_seq:[top..] (C34: build the tops in this order through ONE
//!                                ProtoModuleCache, the machine is the LAST build)}
//!   paths p1;p2;...      reset + letters (hex digits, "-" = empty) -> StepOut per path
//!   trace p              -> observations after reset and after every letter
//!   long p n             -> digest of n periodic steps
//!   quit
//! Replies: `ok <payload>` | `err <message>`.

use super::e2::{self, Machine};
use super::gen_df::{Design, Port};
use super::simx::{self, VerylSim};
use std::io::{BufRead, Write};
use std::sync::mpsc;

fn design_from_doc(doc: &serde_json::Value) -> Result<Design, String> {
    let s = |k: &str| doc[k].as_str().map(|x| x.to_string()).ok_or_else(|| format!("load: missing {k}"));
    let inputs = doc["inputs"]
        .as_array()
        .ok_or("load: inputs")?
        .iter()
        .map(|p| Port {
            name: p[0].as_str().unwrap_or("").to_string(),
            width: p[1].as_u64().unwrap_or(1) as u32,
            signed: false,
        })
        .collect();
    let outputs = doc["outputs"]
        .as_array()
        .ok_or("load: outputs")?
        .iter()
        .map(|p| Port { name: p.as_str().unwrap_or("").to_string(), width: 0, signed: false })
        .collect();
    Ok(Design {
        id: doc["id"].as_str().unwrap_or("?").to_string(),
        class: "loaded",
        top: s("top")?,
        src: s("src")?,
        clk: s("clk")?,
        rst: s("rst")?,
        inputs,
        outputs,
        core: false,
        tags: vec![],
    })
}

/// JSON document understood by `load`.
pub fn load_doc(d: &Design, config: &str) -> serde_json::Value {
    serde_json::json!({
        "id": d.id,
        "src": d.src,
        "top": d.top,
        "clk": d.clk,
        "rst": d.rst,
        "inputs": d.inputs.iter().map(|p| serde_json::json!([p.name, p.width])).collect::<Vec<_>>(),
        "outputs": d.outputs.iter().map(|p| p.name.clone()).collect::<Vec<_>>(),
        "config": config,
    })
}

/// Redirects fd 1 to `path` while `f` runs and returns what was written.
fn capture_stdout<R>(path: &std::path::Path, f: impl FnOnce() -> R) -> (R, String) {
    use std::os::fd::AsRawFd;
    let _ = std::io::stdout().flush();
    let file = std::fs::File::create(path).expect("capture file");
    // SAFETY: plain fd juggling on fds this process owns.
    let saved = unsafe { libc::dup(1) };
    unsafe { libc::dup2(file.as_raw_fd(), 1) };
    let r = f();
    let _ = std::io::stdout().flush();
    unsafe {
        libc::dup2(saved, 1);
        libc::close(saved);
    }
    drop(file);
    let text = std::fs::read_to_string(path).unwrap_or_default();
    let _ = std::fs::remove_file(path);
    (r, text)
}

/// Histogram of Cranelift IR mnemonics in a `dump_cranelift` listing.
fn clif_histogram(text: &str) -> String {
    let keys = [
        "load", "uload8", "uload16", "uload32", "store", "istore8", "istore16", "istore32", "br_table", "brif", "jump", "call", "select", "icmp", "iadd", "imul", "band", "bor",
        "bxor", "ishl", "ushr", "sshr", "uextend", "sextend", "ireduce",
    ];
    let mut counts = vec![0usize; keys.len()];
    let mut funcs = 0usize;
    for line in text.lines() {
        let l = line.trim();
        if l.starts_with("function ") {
            funcs += 1;
            continue;
        }
        // `v3 = load.i64 ...` or `store v1, v2` or `brif v0, block1, block2`
        let rhs = match l.find(" = ") {
            Some(i) => &l[i + 3..],
            None => l,
        };
        let m = rhs.split(|c: char| c == ' ' || c == '.').next().unwrap_or("");
        if let Some(i) = keys.iter().position(|k| *k == m) {
            counts[i] += 1;
        }
    }
    let mut s = format!("clif_funcs={funcs}");
    for (k, c) in keys.iter().zip(counts) {
        s.push_str(&format!(" clif_{k}={c}"));
    }
    s
}

fn build_machine(
    ir: &veryl_analyzer::ir::Ir,
    d: &Design,
    config: &veryl_simulator::Config,
    cfg_name: &str,
    doc: &serde_json::Value,
) -> Result<VerylSim, String> {
    if let Some(seq) = doc["cache_seq"].as_array() {
        // C34: one ProtoModuleCache across a sequence of tops; the machine is the last build.
        let mut cache = veryl_simulator::ir::ProtoModuleCache::default();
        let mut last = None;
        for t in seq {
            let t = t.as_str().unwrap_or("");
            let sim_ir = veryl_simulator::ir::build_ir_cached(ir, t.into(), config, &mut cache)
                .map_err(|e| format!("build_ir_cached({t}): {e}"))?;
            last = Some(sim_ir);
        }
        let sim_ir = last.ok_or("empty cache_seq")?;
        VerylSim::from_ir(sim_ir, d, format!("{cfg_name}/cached"), config.use_4state)
    } else {
        VerylSim::build(ir, d, config)
    }
}

/// Owns one loaded design on its own thread.
fn machine_thread(doc: serde_json::Value, rx: mpsc::Receiver<String>, tx: mpsc::Sender<String>) {
    crate::core::install_quiet_panic_hook();
    type Built = (VerylSim, String, veryl_analyzer::ir::Ir, Design, veryl_simulator::Config, String);
    let built = std::panic::catch_unwind(std::panic::AssertUnwindSafe(|| -> Result<Built, String> {
        let d = design_from_doc(&doc)?;
        let cfg_name = doc["config"].as_str().unwrap_or("interp").to_string();
        let mut config = simx::config_from_name(&cfg_name).ok_or_else(|| format!("bad config {cfg_name}"))?;
        if doc["dut_reuse"].as_bool().unwrap_or(false) {
            config.dut_reuse = true;
        }
        let ir = simx::analyze(&d.src)?;
        if let Some(tops) = doc["recurring_tops"].as_array() {
            // what `veryl test` does before converting its tests when DUT reuse is on
            let tops: Vec<veryl_parser::resource_table::StrId> =
                tops.iter().filter_map(|t| t.as_str()).map(|t| t.into()).collect();
            veryl_simulator::backend::inst::compute_recurring_set(&ir, &tops);
        }
        let mut extra = String::new();
        if doc["probe"].as_bool().unwrap_or(false) && config.use_jit {
            let mut c2 = config.clone();
            c2.dump_cranelift = true;
            let base = std::env::var("VMC_WORKER_SCRATCH").unwrap_or_else(|_| "/dev/shm".to_string());
            let tmp = std::path::Path::new(&base).join(format!("vmc-probe-{}.txt", std::process::id()));
            let (r, text) = capture_stdout(&tmp, || {
                veryl_simulator::ir::build_ir(&ir, d.top.as_str().into(), &c2).map(|_| ())
            });
            r.map_err(|e| format!("probe build_ir: {e}"))?;
            extra = format!(" {}", clif_histogram(&text));
        }
        let m = build_machine(&ir, &d, &config, &cfg_name, &doc)?;
        let shape = format!("{}{}", m.shape.to_line(), extra);
        Ok((m, shape, ir, d, config, cfg_name))
    }));
    let (mut m, ir, d, config, cfg_name) = match built {
        Ok(Ok((m, shape, ir, d, config, cfg_name))) => {
            let _ = tx.send(format!("ok {shape}"));
            (m, ir, d, config, cfg_name)
        }
        Ok(Err(e)) => {
            let _ = tx.send(format!("err {}", e.replace('\n', " ")));
            return;
        }
        Err(p) => {
            let _ = tx.send(format!(
                "err panic during load: {} at {}",
                crate::core::panic_message(p).replace('\n', " "),
                crate::core::take_panic_loc().unwrap_or_default()
            ));
            return;
        }
    };
    while let Ok(line) = rx.recv() {
        let (cmd, rest) = line.split_once(' ').unwrap_or((line.as_str(), ""));
        let reply = match cmd {
            "paths" => {
                let paths: Vec<Vec<u32>> = rest.split(';').map(e2::dec_path).collect();
                m.run_paths(&paths).map(|v| e2::stepouts_line(&v))
            }
            "trace" => m.run_trace(&e2::dec_path(rest)).map(|v| v.join("\x1e")),
            // long runs start from a FRESH simulator (hidden run-time state such as the cone
            // gate's streak counters starts from zero), so each run is a function of its period.
            "long" | "ltrace" => {
                let (p, n) = rest.split_once(' ').unwrap_or((rest, "0"));
                let period = e2::dec_path(p);
                let n: usize = n.parse().unwrap_or(0);
                let fresh = std::panic::catch_unwind(std::panic::AssertUnwindSafe(|| {
                    build_machine(&ir, &d, &config, &cfg_name, &doc)
                }));
                match fresh {
                    Ok(Ok(mut f)) => {
                        if cmd == "long" {
                            f.run_long(&period, n).map(|d| e2::hex(&d))
                        } else {
                            let full: Vec<u32> = (0..n).map(|i| period[i % period.len().max(1)]).collect();
                            f.run_trace(&full).map(|v| v.join("\x1e"))
                        }
                    }
                    Ok(Err(e)) => Err(format!("fresh build: {e}")),
                    Err(p) => Err(format!("panic: fresh build: {}", crate::core::panic_message(p))),
                }
            }
            "unload" => break,
            _ => Err(format!("unknown command {cmd}")),
        };
        let out = match reply {
            Ok(r) => format!("ok {r}"),
            Err(e) => format!("err {}", e.replace('\n', " ")),
        };
        if tx.send(out).is_err() {
            break;
        }
    }
}

pub fn main(_args: &[String]) -> i32 {
    // protocol channel = original stdout; fd 1 now goes to stderr (the worker log)
    // SAFETY: fd juggling at process start, before any other thread exists.
    let proto_fd = unsafe { libc::dup(1) };
    unsafe { libc::dup2(2, 1) };
    use std::os::fd::FromRawFd;
    let mut proto = unsafe { std::fs::File::from_raw_fd(proto_fd) };
    let stdin = std::io::stdin();
    let mut current: Option<(mpsc::Sender<String>, mpsc::Receiver<String>, std::thread::JoinHandle<()>)> = None;
    for line in stdin.lock().lines() {
        let Ok(line) = line else { break };
        let line = line.trim_end().to_string();
        if line.is_empty() {
            continue;
        }
        if line == "quit" {
            break;
        }
        let reply: String = if let Some(h) = line.strip_prefix("load ") {
            if let Some((tx, _, jh)) = current.take() {
                let _ = tx.send("unload".into());
                drop(tx);
                let _ = jh.join();
            }
            match serde_json::from_slice::<serde_json::Value>(&e2::unhex(h)) {
                Err(e) => format!("err bad load document: {e}"),
                Ok(doc) => {
                    let (tx_cmd, rx_cmd) = mpsc::channel::<String>();
                    let (tx_rep, rx_rep) = mpsc::channel::<String>();
                    let jh = std::thread::Builder::new()
                        .stack_size(simx::STACK)
                        .spawn(move || machine_thread(doc, rx_cmd, tx_rep))
                        .expect("spawn machine thread");
                    let first = rx_rep.recv().unwrap_or_else(|_| "err machine thread died during load".into());
                    if first.starts_with("ok") {
                        current = Some((tx_cmd, rx_rep, jh));
                    } else {
                        let _ = jh.join();
                    }
                    first
                }
            }
        } else {
            match &current {
                None => "err no design loaded".to_string(),
                Some((tx, rx, _)) => {
                    if tx.send(line.clone()).is_err() {
                        "err machine thread gone".to_string()
                    } else {
                        rx.recv().unwrap_or_else(|_| "err machine thread died".into())
                    }
                }
            }
        };
        if proto.write_all(reply.as_bytes()).is_err() || proto.write_all(b"\n").is_err() {
            break;
        }
        let _ = proto.flush();
    }
    if let Some((tx, _, jh)) = current.take() {
        let _ = tx.send("unload".into());
        drop(tx);
        let _ = jh.join();
    }
    0
}

//! R3 — independent reference model for `veryl_synthesizer::GateModule`.
//!
//! Everything here is written from the *documentation* of the gate IR (doc comments of
//! `crates/synthesizer/src/ir.rs` and `library.rs`), not from synthesizer evaluation code:
//!
//! * `Netlist::from_gate` copies the public fields into plain owned data (no `StrId`, so the
//!   model is independent of veryl's thread-local string table).
//! * `structure()` — exactly one driver per used net, driver bookkeeping consistent, all net
//!   references in range, cell arity, no combinational cycle.
//! * `Eval` — 2-state evaluator: cells by truth table, flip-flops with clock edge, sync/async
//!   reset, polarity, reset value; RAM blocks with async/sync read ports and write ports with
//!   optional bit masks.
//! * `area()` / `timing()` — recomputation of the area report and of the longest
//!   combinational path (levels and delay) by memoised DFS.
//!
//! The only things taken from the synthesizer crate are the *data types* and the per-library
//! *data tables* (`CellLibrary::info(kind).area/.delay`, `ff_area()`, `sram_model()` fields).

use std::collections::BTreeMap;
use veryl_synthesizer::ir::{
    CellKind, ClockEdge, GateModule, NetDriver, PortDir, ResetPolarity,
};
use veryl_synthesizer::{CellLibrary, StepKind, TimingReport};

pub type Net = u32;

// ------------------------------------------------------------------------------------------
// plain copy of the netlist

#[derive(Clone, Copy, Debug, PartialEq, Eq, Hash, PartialOrd, Ord)]
pub enum Kind {
    Buf,
    Not,
    And2,
    Or2,
    Nand2,
    Nor2,
    Xor2,
    Xnor2,
    And3,
    Or3,
    Nand3,
    Nor3,
    Ao21,
    Aoi21,
    Oa21,
    Oai21,
    Ao31,
    Aoi31,
    Ao22,
    Aoi22,
    Oai22,
    Mux2,
}

pub const ALL_KINDS: [Kind; 22] = [
    Kind::Buf,
    Kind::Not,
    Kind::And2,
    Kind::Or2,
    Kind::Nand2,
    Kind::Nor2,
    Kind::Xor2,
    Kind::Xnor2,
    Kind::And3,
    Kind::Or3,
    Kind::Nand3,
    Kind::Nor3,
    Kind::Ao21,
    Kind::Aoi21,
    Kind::Oa21,
    Kind::Oai21,
    Kind::Ao31,
    Kind::Aoi31,
    Kind::Ao22,
    Kind::Aoi22,
    Kind::Oai22,
    Kind::Mux2,
];

impl Kind {
    pub fn from_veryl(k: CellKind) -> Kind {
        match k {
            CellKind::Buf => Kind::Buf,
            CellKind::Not => Kind::Not,
            CellKind::And2 => Kind::And2,
            CellKind::Or2 => Kind::Or2,
            CellKind::Nand2 => Kind::Nand2,
            CellKind::Nor2 => Kind::Nor2,
            CellKind::Xor2 => Kind::Xor2,
            CellKind::Xnor2 => Kind::Xnor2,
            CellKind::And3 => Kind::And3,
            CellKind::Or3 => Kind::Or3,
            CellKind::Nand3 => Kind::Nand3,
            CellKind::Nor3 => Kind::Nor3,
            CellKind::Ao21 => Kind::Ao21,
            CellKind::Aoi21 => Kind::Aoi21,
            CellKind::Oa21 => Kind::Oa21,
            CellKind::Oai21 => Kind::Oai21,
            CellKind::Ao31 => Kind::Ao31,
            CellKind::Aoi31 => Kind::Aoi31,
            CellKind::Ao22 => Kind::Ao22,
            CellKind::Aoi22 => Kind::Aoi22,
            CellKind::Oai22 => Kind::Oai22,
            CellKind::Mux2 => Kind::Mux2,
        }
    }
    pub fn to_veryl(self) -> CellKind {
        match self {
            Kind::Buf => CellKind::Buf,
            Kind::Not => CellKind::Not,
            Kind::And2 => CellKind::And2,
            Kind::Or2 => CellKind::Or2,
            Kind::Nand2 => CellKind::Nand2,
            Kind::Nor2 => CellKind::Nor2,
            Kind::Xor2 => CellKind::Xor2,
            Kind::Xnor2 => CellKind::Xnor2,
            Kind::And3 => CellKind::And3,
            Kind::Or3 => CellKind::Or3,
            Kind::Nand3 => CellKind::Nand3,
            Kind::Nor3 => CellKind::Nor3,
            Kind::Ao21 => CellKind::Ao21,
            Kind::Aoi21 => CellKind::Aoi21,
            Kind::Oa21 => CellKind::Oa21,
            Kind::Oai21 => CellKind::Oai21,
            Kind::Ao31 => CellKind::Ao31,
            Kind::Aoi31 => CellKind::Aoi31,
            Kind::Ao22 => CellKind::Ao22,
            Kind::Aoi22 => CellKind::Aoi22,
            Kind::Oai22 => CellKind::Oai22,
            Kind::Mux2 => CellKind::Mux2,
        }
    }
    /// Number of inputs, from the formulas in the `CellKind` doc comments.
    pub fn arity(self) -> usize {
        match self {
            Kind::Buf | Kind::Not => 1,
            Kind::And2 | Kind::Or2 | Kind::Nand2 | Kind::Nor2 | Kind::Xor2 | Kind::Xnor2 => 2,
            Kind::And3
            | Kind::Or3
            | Kind::Nand3
            | Kind::Nor3
            | Kind::Ao21
            | Kind::Aoi21
            | Kind::Oa21
            | Kind::Oai21
            | Kind::Mux2 => 3,
            Kind::Ao31 | Kind::Aoi31 | Kind::Ao22 | Kind::Aoi22 | Kind::Oai22 => 4,
        }
    }
    /// Truth table, from the `CellKind` doc comments. `x.len()` must equal `arity()`.
    pub fn eval(self, x: &[bool]) -> bool {
        match self {
            Kind::Buf => x[0],
            Kind::Not => !x[0],
            Kind::And2 => x[0] & x[1],
            Kind::Or2 => x[0] | x[1],
            Kind::Nand2 => !(x[0] & x[1]),
            Kind::Nor2 => !(x[0] | x[1]),
            Kind::Xor2 => x[0] ^ x[1],
            Kind::Xnor2 => !(x[0] ^ x[1]),
            Kind::And3 => x[0] & x[1] & x[2],
            Kind::Or3 => x[0] | x[1] | x[2],
            Kind::Nand3 => !(x[0] & x[1] & x[2]),
            Kind::Nor3 => !(x[0] | x[1] | x[2]),
            // `(A & B) | C`
            Kind::Ao21 => (x[0] & x[1]) | x[2],
            // `!((A & B) | C)`
            Kind::Aoi21 => !((x[0] & x[1]) | x[2]),
            // `(A | B) & C`
            Kind::Oa21 => (x[0] | x[1]) & x[2],
            // `!((A | B) & C)`
            Kind::Oai21 => !((x[0] | x[1]) & x[2]),
            // `(A & B & C) | D`
            Kind::Ao31 => (x[0] & x[1] & x[2]) | x[3],
            // `!((A & B & C) | D)`
            Kind::Aoi31 => !((x[0] & x[1] & x[2]) | x[3]),
            // `(A & B) | (C & D)`
            Kind::Ao22 => (x[0] & x[1]) | (x[2] & x[3]),
            // `!((A & B) | (C & D))`
            Kind::Aoi22 => !((x[0] & x[1]) | (x[2] & x[3])),
            // `!((A | B) & (C | D))`
            Kind::Oai22 => !((x[0] | x[1]) & (x[2] | x[3])),
            // inputs = [sel, d_when_sel_0, d_when_sel_1]
            Kind::Mux2 => {
                if x[0] {
                    x[2]
                } else {
                    x[1]
                }
            }
        }
    }
    pub fn name(self) -> &'static str {
        match self {
            Kind::Buf => "buf",
            Kind::Not => "not",
            Kind::And2 => "and2",
            Kind::Or2 => "or2",
            Kind::Nand2 => "nand2",
            Kind::Nor2 => "nor2",
            Kind::Xor2 => "xor2",
            Kind::Xnor2 => "xnor2",
            Kind::And3 => "and3",
            Kind::Or3 => "or3",
            Kind::Nand3 => "nand3",
            Kind::Nor3 => "nor3",
            Kind::Ao21 => "ao21",
            Kind::Aoi21 => "aoi21",
            Kind::Oa21 => "oa21",
            Kind::Oai21 => "oai21",
            Kind::Ao31 => "ao31",
            Kind::Aoi31 => "aoi31",
            Kind::Ao22 => "ao22",
            Kind::Aoi22 => "aoi22",
            Kind::Oai22 => "oai22",
            Kind::Mux2 => "mux2",
        }
    }
}

/// Declared driver of a net (the `NetInfo::driver` bookkeeping), copied.
#[derive(Clone, Copy, Debug, PartialEq, Eq)]
pub enum Decl {
    Const(bool),
    PortInput,
    Cell(usize),
    FfQ(usize),
    RamRead(usize, usize, usize),
    Undriven,
}

#[derive(Clone, Debug)]
pub struct PCell {
    pub kind: Kind,
    pub inputs: Vec<Net>,
    pub output: Net,
}

#[derive(Clone, Debug)]
pub struct PReset {
    pub net: Net,
    pub active_high: bool,
    pub sync: bool,
}

#[derive(Clone, Debug)]
pub struct PFf {
    pub clock: Net,
    pub posedge: bool,
    pub reset: Option<PReset>,
    pub d: Net,
    pub q: Net,
    pub reset_value: bool,
}

#[derive(Clone, Debug)]
pub struct PWrite {
    pub addr: Vec<Net>,
    pub data: Vec<Net>,
    pub enable: Net,
    pub mask: Option<Vec<Net>>,
}

#[derive(Clone, Debug)]
pub struct PRead {
    pub addr: Vec<Net>,
    pub data: Vec<Net>,
    pub sync: bool,
}

#[derive(Clone, Debug)]
pub struct PRam {
    pub name: String,
    pub depth: usize,
    pub width: usize,
    pub clock: Net,
    pub posedge: bool,
    pub reads: Vec<PRead>,
    pub writes: Vec<PWrite>,
}

#[derive(Clone, Copy, Debug, PartialEq, Eq)]
pub enum Dir {
    In,
    Out,
    InOut,
}

#[derive(Clone, Debug)]
pub struct PPort {
    pub name: String,
    pub path: String,
    pub dir: Dir,
    pub nets: Vec<Net>,
}

#[derive(Clone, Debug)]
pub struct Netlist {
    pub n_nets: usize,
    pub decl: Vec<Decl>,
    pub ports: Vec<PPort>,
    pub cells: Vec<PCell>,
    pub ffs: Vec<PFf>,
    pub rams: Vec<PRam>,
}

impl Netlist {
    /// Must run on the thread that owns the `StrId` table of `m`.
    pub fn from_gate(m: &GateModule) -> Netlist {
        let decl = m
            .nets
            .iter()
            .map(|n| match n.driver {
                NetDriver::Const(b) => Decl::Const(b),
                NetDriver::PortInput => Decl::PortInput,
                NetDriver::Cell(i) => Decl::Cell(i),
                NetDriver::FfQ(i) => Decl::FfQ(i),
                NetDriver::RamRead(a, b, c) => Decl::RamRead(a, b, c),
                NetDriver::Undriven => Decl::Undriven,
            })
            .collect();
        let ports = m
            .ports
            .iter()
            .map(|p| PPort {
                name: p.name.to_string(),
                path: p
                    .path
                    .iter()
                    .map(|s| s.to_string())
                    .collect::<Vec<_>>()
                    .join("."),
                dir: match p.dir {
                    PortDir::Input => Dir::In,
                    PortDir::Output => Dir::Out,
                    PortDir::Inout => Dir::InOut,
                },
                nets: p.nets.clone(),
            })
            .collect();
        let cells = m
            .cells
            .iter()
            .map(|c| PCell {
                kind: Kind::from_veryl(c.kind),
                inputs: c.inputs.clone(),
                output: c.output,
            })
            .collect();
        let ffs = m
            .ffs
            .iter()
            .map(|f| PFf {
                clock: f.clock,
                posedge: matches!(f.clock_edge, ClockEdge::Posedge),
                reset: f.reset.as_ref().map(|r| PReset {
                    net: r.net,
                    active_high: matches!(r.polarity, ResetPolarity::ActiveHigh),
                    sync: r.sync,
                }),
                d: f.d,
                q: f.q,
                reset_value: f.reset_value,
            })
            .collect();
        let rams = m
            .ram_blocks
            .iter()
            .map(|r| PRam {
                name: r.name.to_string(),
                depth: r.depth,
                width: r.width,
                clock: r.clock,
                posedge: matches!(r.clock_edge, ClockEdge::Posedge),
                reads: r
                    .read_ports
                    .iter()
                    .map(|p| PRead {
                        addr: p.addr.clone(),
                        data: p.data.clone(),
                        sync: p.sync,
                    })
                    .collect(),
                writes: r
                    .write_ports
                    .iter()
                    .map(|p| PWrite {
                        addr: p.addr.clone(),
                        data: p.data.clone(),
                        enable: p.enable,
                        mask: p.mask.clone(),
                    })
                    .collect(),
            })
            .collect();
        Netlist {
            n_nets: m.nets.len(),
            decl,
            ports,
            cells,
            ffs,
            rams,
        }
    }

    pub fn kind_histogram(&self) -> BTreeMap<&'static str, usize> {
        let mut h = BTreeMap::new();
        for c in &self.cells {
            *h.entry(c.kind.name()).or_insert(0) += 1;
        }
        h
    }

    pub fn ram_bits(&self) -> usize {
        self.rams.iter().map(|r| r.depth * r.width).sum()
    }
}

// ------------------------------------------------------------------------------------------
// structure

#[derive(Clone, Debug, PartialEq, Eq)]
pub struct Issue {
    /// Stable class name (goes into violation signatures).
    pub class: &'static str,
    pub detail: String,
}

/// An actual driver found by scanning the netlist (independent of `decl`).
#[derive(Clone, Copy, Debug, PartialEq, Eq)]
pub enum Actual {
    Const(bool),
    PortInput,
    Cell(usize),
    FfQ(usize),
    RamRead(usize, usize, usize),
}

pub struct Structure {
    pub issues: Vec<Issue>,
    /// Actual drivers of each net.
    pub drivers: Vec<Vec<Actual>>,
    pub used: Vec<bool>,
    pub used_nets: usize,
    pub has_cycle: bool,
}

impl Netlist {
    fn in_range(&self, n: Net) -> bool {
        (n as usize) < self.n_nets
    }

    /// All structural checks of C20's first sentence.
    pub fn structure(&self) -> Structure {
        let mut issues: Vec<Issue> = vec![];
        let n = self.n_nets;
        let mut push = |class: &'static str, detail: String| {
            issues.push(Issue { class, detail });
        };

        // -- in-range references
        let mut oob = false;
        let mut chk = |net: Net, what: String, push: &mut dyn FnMut(&'static str, String)| {
            if (net as usize) >= n {
                oob = true;
                push("net-out-of-range", format!("{what} references net {net} of {n}"));
            }
        };
        for (pi, p) in self.ports.iter().enumerate() {
            for &x in &p.nets {
                chk(x, format!("port {pi} ({})", p.path), &mut push);
            }
        }
        for (ci, c) in self.cells.iter().enumerate() {
            for &x in &c.inputs {
                chk(x, format!("cell {ci} {} input", c.kind.name()), &mut push);
            }
            chk(c.output, format!("cell {ci} {} output", c.kind.name()), &mut push);
        }
        for (fi, f) in self.ffs.iter().enumerate() {
            chk(f.clock, format!("ff {fi} clock"), &mut push);
            chk(f.d, format!("ff {fi} d"), &mut push);
            chk(f.q, format!("ff {fi} q"), &mut push);
            if let Some(r) = &f.reset {
                chk(r.net, format!("ff {fi} reset"), &mut push);
            }
        }
        for (ri, r) in self.rams.iter().enumerate() {
            chk(r.clock, format!("ram {ri} clock"), &mut push);
            for (pi, p) in r.reads.iter().enumerate() {
                for &x in p.addr.iter().chain(p.data.iter()) {
                    chk(x, format!("ram {ri} read port {pi}"), &mut push);
                }
            }
            for (pi, p) in r.writes.iter().enumerate() {
                for &x in p
                    .addr
                    .iter()
                    .chain(p.data.iter())
                    .chain(std::iter::once(&p.enable))
                    .chain(p.mask.iter().flatten())
                {
                    chk(x, format!("ram {ri} write port {pi}"), &mut push);
                }
            }
        }
        if n < 2 {
            push("reserved-nets-missing", format!("netlist has {n} nets, needs the two constant nets"));
        }

        // -- arity
        for (ci, c) in self.cells.iter().enumerate() {
            if c.inputs.len() != c.kind.arity() {
                push(
                    "cell-arity",
                    format!(
                        "cell {ci} {} has {} inputs, kind takes {}",
                        c.kind.name(),
                        c.inputs.len(),
                        c.kind.arity()
                    ),
                );
            }
        }
        // -- RAM port shapes
        for (ri, r) in self.rams.iter().enumerate() {
            if r.depth == 0 || r.width == 0 {
                push("ram-shape", format!("ram {ri} is {}x{}", r.depth, r.width));
            }
            let need = addr_bits(r.depth);
            for (pi, p) in r.reads.iter().enumerate() {
                if p.data.len() != r.width {
                    push(
                        "ram-shape",
                        format!("ram {ri} read port {pi} has {} data nets, width {}", p.data.len(), r.width),
                    );
                }
                if p.addr.len() < need {
                    push(
                        "ram-shape",
                        format!("ram {ri} read port {pi} has {} addr nets, depth {} needs {need}", p.addr.len(), r.depth),
                    );
                }
            }
            for (pi, p) in r.writes.iter().enumerate() {
                if p.data.len() != r.width {
                    push(
                        "ram-shape",
                        format!("ram {ri} write port {pi} has {} data nets, width {}", p.data.len(), r.width),
                    );
                }
                if let Some(m) = &p.mask
                    && m.len() != p.data.len()
                {
                    push(
                        "ram-shape",
                        format!("ram {ri} write port {pi} mask has {} nets, data {}", m.len(), p.data.len()),
                    );
                }
                if p.addr.len() < need {
                    push(
                        "ram-shape",
                        format!("ram {ri} write port {pi} has {} addr nets, depth {} needs {need}", p.addr.len(), r.depth),
                    );
                }
            }
        }

        // -- actual drivers / used nets (only in-range nets are recorded)
        let mut drivers: Vec<Vec<Actual>> = vec![vec![]; n];
        let mut used = vec![false; n];
        if n >= 1 {
            drivers[0].push(Actual::Const(false));
        }
        if n >= 2 {
            drivers[1].push(Actual::Const(true));
        }
        for p in &self.ports {
            for &x in &p.nets {
                if !self.in_range(x) {
                    continue;
                }
                match p.dir {
                    Dir::In | Dir::InOut => {
                        if !drivers[x as usize].contains(&Actual::PortInput) {
                            drivers[x as usize].push(Actual::PortInput)
                        }
                    }
                    Dir::Out => {}
                }
                if matches!(p.dir, Dir::Out | Dir::InOut) {
                    used[x as usize] = true;
                }
            }
        }
        for (ci, c) in self.cells.iter().enumerate() {
            if self.in_range(c.output) {
                drivers[c.output as usize].push(Actual::Cell(ci));
            }
            for &x in &c.inputs {
                if self.in_range(x) {
                    used[x as usize] = true;
                }
            }
        }
        for (fi, f) in self.ffs.iter().enumerate() {
            if self.in_range(f.q) {
                drivers[f.q as usize].push(Actual::FfQ(fi));
            }
            for x in [Some(f.clock), Some(f.d), f.reset.as_ref().map(|r| r.net)]
                .into_iter()
                .flatten()
            {
                if self.in_range(x) {
                    used[x as usize] = true;
                }
            }
        }
        for (ri, r) in self.rams.iter().enumerate() {
            if self.in_range(r.clock) {
                used[r.clock as usize] = true;
            }
            for (pi, p) in r.reads.iter().enumerate() {
                for (bi, &x) in p.data.iter().enumerate() {
                    if self.in_range(x) {
                        drivers[x as usize].push(Actual::RamRead(ri, pi, bi));
                    }
                }
                for &x in &p.addr {
                    if self.in_range(x) {
                        used[x as usize] = true;
                    }
                }
            }
            for p in &r.writes {
                for &x in p
                    .addr
                    .iter()
                    .chain(p.data.iter())
                    .chain(std::iter::once(&p.enable))
                    .chain(p.mask.iter().flatten())
                {
                    if self.in_range(x) {
                        used[x as usize] = true;
                    }
                }
            }
        }

        // -- exactly one driver per used net; bookkeeping agrees
        for net in 0..n {
            let ds = &drivers[net];
            if ds.len() > 1 {
                push(
                    "multiple-drivers",
                    format!("net {net} has {} drivers: {:?}", ds.len(), ds),
                );
            }
            if used[net] && ds.is_empty() {
                push(
                    "used-net-undriven",
                    format!("net {net} is consumed but nothing drives it (declared {:?})", self.decl[net]),
                );
            }
            // bookkeeping vs reality
            let declared = self.decl[net];
            let consistent = match declared {
                Decl::Undriven => ds.is_empty(),
                Decl::Const(b) => ds.contains(&Actual::Const(b)),
                Decl::PortInput => ds.contains(&Actual::PortInput),
                Decl::Cell(i) => ds.contains(&Actual::Cell(i)),
                Decl::FfQ(i) => ds.contains(&Actual::FfQ(i)),
                Decl::RamRead(a, b, c) => ds.contains(&Actual::RamRead(a, b, c)),
            };
            if !consistent {
                let class = if used[net] {
                    "driver-bookkeeping-used-net"
                } else {
                    "driver-bookkeeping-unused-net"
                };
                push(
                    class,
                    format!("net {net} declares driver {:?} but actual drivers are {:?}", declared, ds),
                );
            }
        }

        // -- combinational cycle (cells + asynchronous RAM reads), only if references are sane
        let mut has_cycle = false;
        if !oob {
            if let Err(net) = self.levels_by_dfs(&drivers, &mut |_| 1u64, &mut |_, _| 1u64) {
                has_cycle = true;
                push("combinational-cycle", format!("cycle through net {net}"));
            }
        }
        let used_nets = used.iter().filter(|x| **x).count();
        Structure {
            issues,
            drivers,
            used,
            used_nets,
            has_cycle,
        }
    }

    /// Longest-path value of every net by memoised iterative DFS over the combinational graph.
    /// `cell_w(cell_index)` is the weight of a cell, `ram_w(ram, port)` of an async read port.
    /// Start points (port inputs, constants, FF Q, sync read data, undriven) are 0.
    /// Err(net) = a combinational cycle through `net`.
    fn levels_by_dfs(
        &self,
        drivers: &[Vec<Actual>],
        cell_w: &mut dyn FnMut(usize) -> u64,
        ram_w: &mut dyn FnMut(usize, usize) -> u64,
    ) -> Result<Vec<u64>, Net> {
        // generic over u64 weights; the f64 variant is below (same walk).
        let n = self.n_nets;
        let mut val = vec![0u64; n];
        let mut state = vec![0u8; n]; // 0 new, 1 on stack, 2 done
        for start in 0..n {
            if state[start] != 0 {
                continue;
            }
            let mut stack: Vec<(usize, usize)> = vec![(start, 0)];
            state[start] = 1;
            while let Some(&mut (net, ref mut k)) = stack.last_mut() {
                let fanin: &[Net] = match comb_driver(drivers, net) {
                    Some(Actual::Cell(ci)) => &self.cells[ci].inputs,
                    Some(Actual::RamRead(r, p, _)) if !self.rams[r].reads[p].sync => {
                        &self.rams[r].reads[p].addr
                    }
                    _ => &[],
                };
                if *k < fanin.len() {
                    let nx = fanin[*k] as usize;
                    *k += 1;
                    match state[nx] {
                        0 => {
                            state[nx] = 1;
                            stack.push((nx, 0));
                        }
                        1 => return Err(nx as Net),
                        _ => {}
                    }
                } else {
                    let base = fanin.iter().map(|x| val[*x as usize]).max().unwrap_or(0);
                    val[net] = match comb_driver(drivers, net) {
                        Some(Actual::Cell(ci)) => base + cell_w(ci),
                        Some(Actual::RamRead(r, p, _)) if !self.rams[r].reads[p].sync => {
                            base + ram_w(r, p)
                        }
                        _ => 0,
                    };
                    state[net] = 2;
                    stack.pop();
                }
            }
        }
        Ok(val)
    }

    fn arrivals_by_dfs(
        &self,
        drivers: &[Vec<Actual>],
        cell_w: &dyn Fn(usize) -> f64,
        ram_w: &dyn Fn(usize, usize) -> f64,
    ) -> Result<Vec<f64>, Net> {
        let n = self.n_nets;
        let mut val = vec![0f64; n];
        let mut state = vec![0u8; n];
        for start in 0..n {
            if state[start] != 0 {
                continue;
            }
            let mut stack: Vec<(usize, usize)> = vec![(start, 0)];
            state[start] = 1;
            while let Some(&mut (net, ref mut k)) = stack.last_mut() {
                let fanin: &[Net] = match comb_driver(drivers, net) {
                    Some(Actual::Cell(ci)) => &self.cells[ci].inputs,
                    Some(Actual::RamRead(r, p, _)) if !self.rams[r].reads[p].sync => {
                        &self.rams[r].reads[p].addr
                    }
                    _ => &[],
                };
                if *k < fanin.len() {
                    let nx = fanin[*k] as usize;
                    *k += 1;
                    match state[nx] {
                        0 => {
                            state[nx] = 1;
                            stack.push((nx, 0));
                        }
                        1 => return Err(nx as Net),
                        _ => {}
                    }
                } else {
                    let base = fanin
                        .iter()
                        .map(|x| val[*x as usize])
                        .fold(0f64, |a, b| if b > a { b } else { a });
                    val[net] = match comb_driver(drivers, net) {
                        Some(Actual::Cell(ci)) => base + cell_w(ci),
                        Some(Actual::RamRead(r, p, _)) if !self.rams[r].reads[p].sync => {
                            base + ram_w(r, p)
                        }
                        _ => 0.0,
                    };
                    state[net] = 2;
                    stack.pop();
                }
            }
        }
        Ok(val)
    }

    /// Timing endpoints: FF D pins, output/inout port bits, RAM write-port inputs
    /// (address, data, enable, mask). `(net, description)`.
    pub fn endpoints(&self) -> Vec<(Net, String)> {
        let mut v = vec![];
        for (i, f) in self.ffs.iter().enumerate() {
            v.push((f.d, format!("ff{i}.d")));
        }
        for p in &self.ports {
            if matches!(p.dir, Dir::Out | Dir::InOut) {
                for (b, &x) in p.nets.iter().enumerate() {
                    v.push((x, format!("{}[{b}]", p.path)));
                }
            }
        }
        for (ri, r) in self.rams.iter().enumerate() {
            for (pi, p) in r.writes.iter().enumerate() {
                for &x in p
                    .addr
                    .iter()
                    .chain(p.data.iter())
                    .chain(std::iter::once(&p.enable))
                    .chain(p.mask.iter().flatten())
                {
                    v.push((x, format!("ram{ri}.w{pi}")));
                }
            }
        }
        v
    }

    /// Pins that also sample at a clock edge but that veryl's report does not list as
    /// endpoints (sync reset pins, sync read addresses). Measured, not judged.
    pub fn secondary_endpoints(&self) -> Vec<Net> {
        let mut v = vec![];
        for f in &self.ffs {
            if let Some(r) = &f.reset
                && r.sync
            {
                v.push(r.net);
            }
        }
        for r in &self.rams {
            for p in &r.reads {
                if p.sync {
                    v.extend(p.addr.iter().copied());
                }
            }
        }
        v
    }
}

/// The combinational driver of a net if it has exactly one driver.
fn comb_driver(drivers: &[Vec<Actual>], net: usize) -> Option<Actual> {
    // With multiple drivers (already reported) walk through the first cell-like one so the
    // cycle check still terminates deterministically.
    drivers[net]
        .iter()
        .copied()
        .find(|d| matches!(d, Actual::Cell(_) | Actual::RamRead(..)))
}

/// Address bits needed for `depth` entries.
pub fn addr_bits(depth: usize) -> usize {
    let mut b = 0;
    while (1usize << b) < depth {
        b += 1;
    }
    b
}

// ------------------------------------------------------------------------------------------
// reports

#[derive(Clone, Debug)]
pub struct AreaRecomputed {
    pub combinational: f64,
    pub sequential: f64,
    pub memory: f64,
    pub total: f64,
    pub ff_count: usize,
    pub ram_bits: usize,
    pub by_kind: BTreeMap<&'static str, (usize, f64)>,
}

impl Netlist {
    /// Σ library.info(kind).area over cells + ffs·ff_area + stored RAM bits·bit_area.
    pub fn area(&self, lib: &dyn CellLibrary) -> AreaRecomputed {
        let mut by_kind: BTreeMap<&'static str, (usize, f64)> = BTreeMap::new();
        let mut comb = 0.0;
        for c in &self.cells {
            let a = lib.info(c.kind.to_veryl()).area;
            let e = by_kind.entry(c.kind.name()).or_insert((0, 0.0));
            e.0 += 1;
            e.1 += a;
            comb += a;
        }
        let mut seq = 0.0;
        for _ in &self.ffs {
            seq += lib.ff_area();
        }
        let bit_area = lib.sram_model().bit_area;
        let mut mem = 0.0;
        let mut bits = 0usize;
        for r in &self.rams {
            bits += r.depth * r.width;
            mem += (r.depth * r.width) as f64 * bit_area;
        }
        AreaRecomputed {
            combinational: comb,
            sequential: seq,
            memory: mem,
            total: comb + seq + mem,
            ff_count: self.ffs.len(),
            ram_bits: bits,
            by_kind,
        }
    }
}

#[derive(Clone, Debug)]
pub struct TimingRecomputed {
    /// Longest path in logic levels over all endpoints (`Buf` = wire = 0 levels, every other cell
    /// and an asynchronous RAM read = 1 level).
    pub depth_global: u64,
    /// Same but counting `Buf` cells as levels too.
    pub depth_global_with_buf: u64,
    /// Longest delay over all endpoints (library cell delays, SRAM access time).
    pub delay_global: f64,
    pub levels: Vec<u64>,
    pub arrivals: Vec<f64>,
    pub n_endpoints: usize,
    /// Endpoints (net) whose level equals depth_global.
    pub deepest_endpoints: Vec<Net>,
    /// Longest levels/delay into pins veryl does not treat as endpoints.
    pub depth_secondary: u64,
}

impl Netlist {
    pub fn timing(&self, st: &Structure, lib: &dyn CellLibrary) -> Result<TimingRecomputed, Net> {
        let cells = &self.cells;
        let levels = self.levels_by_dfs(
            &st.drivers,
            &mut |ci| if cells[ci].kind == Kind::Buf { 0 } else { 1 },
            &mut |_, _| 1,
        )?;
        let levels_buf = self.levels_by_dfs(&st.drivers, &mut |_| 1, &mut |_, _| 1)?;
        let sram = lib.sram_model();
        let rams = &self.rams;
        let arrivals = self.arrivals_by_dfs(
            &st.drivers,
            &|ci| lib.info(cells[ci].kind.to_veryl()).delay,
            &|r, _| {
                // "Access time for a depth-entry macro: base + slope · log2(depth)", depth < 2
                // treated as 2.
                let d = rams[r].depth.max(2) as f64;
                sram.access_base + sram.access_per_log2_depth * d.log2()
            },
        )?;
        let eps = self.endpoints();
        let mut depth_global = 0;
        let mut depth_buf = 0;
        let mut delay_global = 0f64;
        for (net, _) in &eps {
            let i = *net as usize;
            if i >= self.n_nets {
                continue;
            }
            depth_global = depth_global.max(levels[i]);
            depth_buf = depth_buf.max(levels_buf[i]);
            if arrivals[i] > delay_global {
                delay_global = arrivals[i];
            }
        }
        let mut deepest: Vec<Net> = eps
            .iter()
            .filter(|(net, _)| (*net as usize) < self.n_nets && levels[*net as usize] == depth_global)
            .map(|x| x.0)
            .collect();
        deepest.sort();
        deepest.dedup();
        let depth_secondary = self
            .secondary_endpoints()
            .iter()
            .filter(|x| (**x as usize) < self.n_nets)
            .map(|x| levels[*x as usize])
            .max()
            .unwrap_or(0);
        Ok(TimingRecomputed {
            depth_global,
            depth_global_with_buf: depth_buf,
            delay_global,
            levels,
            arrivals,
            n_endpoints: eps.len(),
            deepest_endpoints: deepest,
            depth_secondary,
        })
    }

    /// Checks that the reported critical path is a real path of the netlist: starts at a
    /// sequential/port boundary, every step is the output of a cell (or async RAM read) one of
    /// whose inputs is the previous step's net, ends at a real endpoint pin on the last net.
    /// Returns (issues, non-Buf cell steps on the path).
    pub fn check_reported_path(
        &self,
        st: &Structure,
        rep: &TimingReport,
        lib: &dyn CellLibrary,
    ) -> (Vec<Issue>, u64) {
        let mut issues = vec![];
        let mut push = |class: &'static str, detail: String| issues.push(Issue { class, detail });
        let path = &rep.critical_path;
        if path.is_empty() {
            return (issues, 0);
        }
        if path.len() < 2 {
            push("path-shape", format!("critical path has {} step(s); needs a start and an end", path.len()));
            return (issues, 0);
        }
        for (i, s) in path.iter().enumerate() {
            if (s.net as usize) >= self.n_nets {
                push("path-net-out-of-range", format!("step {i} names net {}", s.net));
                return (issues, 0);
            }
        }
        let sram = lib.sram_model();
        let body = &path[..path.len() - 1];
        let end = &path[path.len() - 1];
        let mut levels_on_path = 0u64;
        // start
        let s0 = &body[0];
        match comb_driver(&st.drivers, s0.net as usize) {
            Some(Actual::Cell(ci)) => push(
                "path-start-not-boundary",
                format!("first step net {} is driven by cell {ci} {}", s0.net, self.cells[ci].kind.name()),
            ),
            Some(Actual::RamRead(r, p, _)) if !self.rams[r].reads[p].sync => push(
                "path-start-not-boundary",
                format!("first step net {} is an asynchronous read of ram {r}", s0.net),
            ),
            _ => {}
        }
        if matches!(s0.kind, StepKind::CellOutput(..)) {
            push("path-start-kind", format!("first step is labelled {:?}", s0.kind));
        }
        if s0.arrival.abs() > 1e-9 {
            push("path-arrival", format!("start arrival is {}", s0.arrival));
        }
        for i in 1..body.len() {
            let prev = &body[i - 1];
            let cur = &body[i];
            match comb_driver(&st.drivers, cur.net as usize) {
                Some(Actual::Cell(ci)) => {
                    let c = &self.cells[ci];
                    if !c.inputs.contains(&prev.net) {
                        push(
                            "path-not-consecutive",
                            format!(
                                "step {i}: net {} is driven by cell {ci} {}({:?}) which does not read the previous step's net {}",
                                cur.net,
                                c.kind.name(),
                                c.inputs,
                                prev.net
                            ),
                        );
                    }
                    match &cur.kind {
                        StepKind::CellOutput(idx, k) => {
                            if *idx != ci || Kind::from_veryl(*k) != c.kind {
                                push(
                                    "path-step-label",
                                    format!("step {i}: labelled cell {idx} {:?}, netlist has cell {ci} {}", k, c.kind.name()),
                                );
                            }
                        }
                        other => push(
                            "path-step-label",
                            format!("step {i}: labelled {:?} but net {} is a cell output", other, cur.net),
                        ),
                    }
                    if c.kind != Kind::Buf {
                        levels_on_path += 1;
                    }
                    let d = lib.info(c.kind.to_veryl()).delay;
                    if !close(cur.arrival, prev.arrival + d) {
                        push(
                            "path-arrival",
                            format!("step {i}: arrival {} != previous {} + delay {}", cur.arrival, prev.arrival, d),
                        );
                    }
                }
                Some(Actual::RamRead(r, p, _)) if !self.rams[r].reads[p].sync => {
                    if !self.rams[r].reads[p].addr.contains(&prev.net) {
                        push(
                            "path-not-consecutive",
                            format!("step {i}: async read of ram {r} port {p} does not take net {} as address", prev.net),
                        );
                    }
                    if !matches!(cur.kind, StepKind::RamReadOutput(x) if x == r) {
                        push("path-step-label", format!("step {i}: labelled {:?}, netlist has ram {r} read", cur.kind));
                    }
                    levels_on_path += 1;
                    let d = sram.access_base
                        + sram.access_per_log2_depth * (self.rams[r].depth.max(2) as f64).log2();
                    if !close(cur.arrival, prev.arrival + d) {
                        push(
                            "path-arrival",
                            format!("step {i}: arrival {} != previous {} + access {}", cur.arrival, prev.arrival, d),
                        );
                    }
                }
                _ => push(
                    "path-not-consecutive",
                    format!("step {i}: net {} is a boundary net (drivers {:?}) in the middle of the path", cur.net, st.drivers[cur.net as usize]),
                ),
            }
        }
        // end
        let last = &body[body.len() - 1];
        if end.net != last.net {
            push(
                "path-end",
                format!("end step is on net {} but the path arrives on net {}", end.net, last.net),
            );
        }
        if !close(end.arrival, last.arrival) || !close(end.arrival, rep.critical_path_delay) {
            push(
                "path-arrival",
                format!(
                    "end arrival {} / last step {} / reported delay {}",
                    end.arrival, last.arrival, rep.critical_path_delay
                ),
            );
        }
        match &end.kind {
            StepKind::FfInput(i) => {
                if self.ffs.get(*i).map(|f| f.d) != Some(end.net) {
                    push("path-end", format!("end labelled FF {i} D but that pin is not net {}", end.net));
                }
            }
            StepKind::PortOutput => {
                let ok = self
                    .ports
                    .iter()
                    .any(|p| matches!(p.dir, Dir::Out | Dir::InOut) && p.nets.contains(&end.net));
                if !ok {
                    push("path-end", format!("end labelled output port but net {} is on no output port", end.net));
                }
            }
            StepKind::RamWriteInput(r) => {
                let ok = self.rams.get(*r).is_some_and(|ram| {
                    ram.writes.iter().any(|p| {
                        p.addr.contains(&end.net)
                            || p.data.contains(&end.net)
                            || p.enable == end.net
                            || p.mask.as_ref().is_some_and(|m| m.contains(&end.net))
                    })
                });
                if !ok {
                    push("path-end", format!("end labelled ram {r} write input but net {} is not one", end.net));
                }
            }
            other => push("path-end", format!("end step is labelled {:?}", other)),
        }
        (issues, levels_on_path)
    }
}

pub fn close(a: f64, b: f64) -> bool {
    let scale = a.abs().max(b.abs());
    (a - b).abs() <= 1e-9 * scale.max(1e-3)
}

// ------------------------------------------------------------------------------------------
// evaluation

#[derive(Clone, Debug, PartialEq, Eq, Hash)]
pub struct State {
    pub ff: Vec<bool>,
    pub ram: Vec<Vec<bool>>,
    /// Registered read data of sync read ports: [ram][port][bit] (empty vec for async ports).
    pub rd_reg: Vec<Vec<Vec<bool>>>,
    /// Last seen level of every FF clock pin and RAM clock pin (edge detection).
    pub ff_clk: Vec<bool>,
    pub ram_clk: Vec<bool>,
}

#[derive(Clone, Copy)]
enum Node {
    Cell(usize),
    Read(usize, usize),
}

pub struct Eval<'a> {
    pub nl: &'a Netlist,
    order: Vec<Node>,
    pub val: Vec<bool>,
    /// Values driven on input-port nets.
    pub inp: Vec<bool>,
    pub st: State,
    /// Counters for vacuity statistics.
    pub ff_updates: u64,
    pub ram_writes: u64,
}

impl<'a> Eval<'a> {
    /// Requires a structurally evaluable netlist (in-range nets, acyclic, arities right).
    pub fn new(nl: &'a Netlist, st: &Structure) -> Result<Eval<'a>, String> {
        for i in &st.issues {
            if matches!(
                i.class,
                "net-out-of-range" | "cell-arity" | "combinational-cycle" | "ram-shape" | "reserved-nets-missing"
            ) {
                return Err(format!("not evaluable: {}: {}", i.class, i.detail));
            }
        }
        // topological order by DFS post-order over nets
        let n = nl.n_nets;
        let mut done = vec![false; n];
        let mut order = vec![];
        let mut emitted_read = vec![vec![false; 0]; nl.rams.len()];
        for (r, ram) in nl.rams.iter().enumerate() {
            emitted_read[r] = vec![false; ram.reads.len()];
        }
        let mut emitted_cell = vec![false; nl.cells.len()];
        for start in 0..n {
            if done[start] {
                continue;
            }
            let mut stack: Vec<(usize, usize)> = vec![(start, 0)];
            done[start] = true;
            while let Some(&mut (net, ref mut k)) = stack.last_mut() {
                let drv = comb_driver(&st.drivers, net);
                let fanin: &[Net] = match drv {
                    Some(Actual::Cell(ci)) => &nl.cells[ci].inputs,
                    Some(Actual::RamRead(r, p, _)) if !nl.rams[r].reads[p].sync => {
                        &nl.rams[r].reads[p].addr
                    }
                    _ => &[],
                };
                if *k < fanin.len() {
                    let nx = fanin[*k] as usize;
                    *k += 1;
                    if !done[nx] {
                        done[nx] = true;
                        stack.push((nx, 0));
                    }
                } else {
                    match drv {
                        Some(Actual::Cell(ci)) => {
                            if !emitted_cell[ci] {
                                emitted_cell[ci] = true;
                                order.push(Node::Cell(ci));
                            }
                        }
                        Some(Actual::RamRead(r, p, _)) if !nl.rams[r].reads[p].sync => {
                            if !emitted_read[r][p] {
                                // every address net of this port must be done first
                                let addr = &nl.rams[r].reads[p].addr;
                                let mut pending = None;
                                for &a in addr {
                                    if !done[a as usize] {
                                        pending = Some(a as usize);
                                        break;
                                    }
                                }
                                if let Some(a) = pending {
                                    done[a] = true;
                                    stack.push((a, 0));
                                    continue;
                                }
                                emitted_read[r][p] = true;
                                order.push(Node::Read(r, p));
                            }
                        }
                        _ => {}
                    }
                    stack.pop();
                }
            }
        }
        // cells that drive nothing reachable were still emitted (every net was a start).
        let state = State {
            ff: vec![false; nl.ffs.len()],
            ram: nl.rams.iter().map(|r| vec![false; r.depth * r.width]).collect(),
            rd_reg: nl
                .rams
                .iter()
                .map(|r| {
                    r.reads
                        .iter()
                        .map(|p| if p.sync { vec![false; r.width] } else { vec![] })
                        .collect()
                })
                .collect(),
            ff_clk: vec![false; nl.ffs.len()],
            ram_clk: vec![false; nl.rams.len()],
        };
        let mut e = Eval {
            nl,
            order,
            val: vec![false; n],
            inp: vec![false; n],
            st: state,
            ff_updates: 0,
            ram_writes: 0,
        };
        // Power-up: no edge has happened yet, the clock pins are at whatever the all-zero inputs
        // make them.
        e.settle();
        for (i, f) in nl.ffs.iter().enumerate() {
            e.st.ff_clk[i] = e.val[f.clock as usize];
        }
        for (i, r) in nl.rams.iter().enumerate() {
            e.st.ram_clk[i] = e.val[r.clock as usize];
        }
        Ok(e)
    }

    /// Pure combinational propagation from (inputs, FF state, RAM state).
    pub fn settle(&mut self) {
        let nl = self.nl;
        for v in self.val.iter_mut() {
            *v = false;
        }
        if nl.n_nets > 1 {
            self.val[1] = true;
        }
        for p in &nl.ports {
            if matches!(p.dir, Dir::In | Dir::InOut) {
                for &x in &p.nets {
                    self.val[x as usize] = self.inp[x as usize];
                }
            }
        }
        for (i, f) in nl.ffs.iter().enumerate() {
            self.val[f.q as usize] = self.st.ff[i];
        }
        for (r, ram) in nl.rams.iter().enumerate() {
            for (p, port) in ram.reads.iter().enumerate() {
                if port.sync {
                    for (b, &x) in port.data.iter().enumerate() {
                        self.val[x as usize] = self.st.rd_reg[r][p][b];
                    }
                }
            }
        }
        let mut buf = [false; 4];
        for node in &self.order {
            match *node {
                Node::Cell(ci) => {
                    let c = &nl.cells[ci];
                    for (k, &x) in c.inputs.iter().enumerate() {
                        buf[k] = self.val[x as usize];
                    }
                    self.val[c.output as usize] = c.kind.eval(&buf[..c.inputs.len()]);
                }
                Node::Read(r, p) => {
                    let ram = &nl.rams[r];
                    let port = &ram.reads[p];
                    let a = read_addr(&self.val, &port.addr);
                    for (b, &x) in port.data.iter().enumerate() {
                        self.val[x as usize] = match a {
                            Some(a) if a < ram.depth => self.st.ram[r][a * ram.width + b],
                            _ => false,
                        };
                    }
                }
            }
        }
    }

    pub fn set_input(&mut self, port: &str, value: u64) -> bool {
        let Some(p) = self
            .nl
            .ports
            .iter()
            .find(|p| p.path == port && matches!(p.dir, Dir::In | Dir::InOut))
        else {
            return false;
        };
        for (b, &x) in p.nets.iter().enumerate() {
            self.inp[x as usize] = b < 64 && (value >> b) & 1 == 1;
        }
        true
    }

    pub fn get_output(&self, port: &str) -> Option<u64> {
        let p = self.nl.ports.iter().find(|p| p.path == port)?;
        let mut v = 0u64;
        for (b, &x) in p.nets.iter().enumerate() {
            if b < 64 && self.val[x as usize] {
                v |= 1 << b;
            }
        }
        Some(v)
    }

    /// Propagates the current input values, then lets every flip-flop / RAM react:
    /// asynchronous resets by level, clocked behaviour on an active edge of its own clock pin
    /// (all sequential elements sample the pre-edge values and commit together). Repeats while
    /// committed values produce further clock edges (derived clocks), bounded.
    pub fn apply(&mut self) {
        for _round in 0..8 {
            self.settle();
            let nl = self.nl;
            let mut next_ff = self.st.ff.clone();
            let mut any = false;
            for (i, f) in nl.ffs.iter().enumerate() {
                let clk = self.val[f.clock as usize];
                let was = self.st.ff_clk[i];
                let edge = if f.posedge { !was && clk } else { was && !clk };
                self.st.ff_clk[i] = clk;
                let asserted = f
                    .reset
                    .as_ref()
                    .map(|r| self.val[r.net as usize] == r.active_high)
                    .unwrap_or(false);
                let is_async = f.reset.as_ref().map(|r| !r.sync).unwrap_or(false);
                if asserted && is_async {
                    if next_ff[i] != f.reset_value {
                        any = true;
                    }
                    next_ff[i] = f.reset_value;
                } else if edge {
                    let v = if asserted { f.reset_value } else { self.val[f.d as usize] };
                    if next_ff[i] != v {
                        any = true;
                    }
                    next_ff[i] = v;
                    self.ff_updates += 1;
                }
            }
            let mut next_ram = None;
            for (r, ram) in nl.rams.iter().enumerate() {
                let clk = self.val[ram.clock as usize];
                let was = self.st.ram_clk[r];
                let edge = if ram.posedge { !was && clk } else { was && !clk };
                self.st.ram_clk[r] = clk;
                if !edge {
                    continue;
                }
                let nr = next_ram.get_or_insert_with(|| (self.st.ram.clone(), self.st.rd_reg.clone()));
                // registered reads see the contents before this edge's writes
                for (p, port) in ram.reads.iter().enumerate() {
                    if port.sync {
                        let a = read_addr(&self.val, &port.addr);
                        for b in 0..ram.width {
                            let v = match a {
                                Some(a) if a < ram.depth => self.st.ram[r][a * ram.width + b],
                                _ => false,
                            };
                            if nr.1[r][p][b] != v {
                                any = true;
                            }
                            nr.1[r][p][b] = v;
                        }
                    }
                }
                // write ports in order; a later port overwrites an earlier one
                for port in &ram.writes {
                    if !self.val[port.enable as usize] {
                        continue;
                    }
                    let Some(a) = read_addr(&self.val, &port.addr) else { continue };
                    if a >= ram.depth {
                        continue;
                    }
                    for (b, &dn) in port.data.iter().enumerate() {
                        let m = match &port.mask {
                            Some(m) => self.val[m[b] as usize],
                            None => true,
                        };
                        if m {
                            let v = self.val[dn as usize];
                            if nr.0[r][a * ram.width + b] != v {
                                any = true;
                            }
                            nr.0[r][a * ram.width + b] = v;
                        }
                    }
                    self.ram_writes += 1;
                }
            }
            self.st.ff = next_ff;
            if let Some((a, b)) = next_ram {
                self.st.ram = a;
                self.st.rd_reg = b;
            }
            if !any {
                // nothing committed in this round: `val` already reflects the current state
                return;
            }
        }
        self.settle();
    }

    pub fn state_bytes(&self) -> Vec<u8> {
        let mut v = Vec::new();
        pack(&mut v, &self.st.ff);
        for r in &self.st.ram {
            pack(&mut v, r);
        }
        for r in &self.st.rd_reg {
            for p in r {
                pack(&mut v, p);
            }
        }
        v
    }
}

fn pack(out: &mut Vec<u8>, bits: &[bool]) {
    let mut cur = 0u8;
    for (i, b) in bits.iter().enumerate() {
        if *b {
            cur |= 1 << (i % 8);
        }
        if i % 8 == 7 {
            out.push(cur);
            cur = 0;
        }
    }
    if bits.len() % 8 != 0 {
        out.push(cur);
    }
    out.push(0xff);
}

/// Address value of LSB-first address nets; None if it does not fit a usize.
fn read_addr(val: &[bool], addr: &[Net]) -> Option<usize> {
    let mut a = 0usize;
    for (b, &x) in addr.iter().enumerate() {
        if val[x as usize] {
            if b >= usize::BITS as usize - 1 {
                return None;
            }
            a |= 1 << b;
        }
    }
    Some(a)
}

//! Minimal JSON-RPC / LSP client driving the real `veryl-ls` child over stdio.
//!
//! * `initialize` announces `window.workDoneProgress = false` (otherwise the server thread blocks
//!   on a `window/workDoneProgress/create` round trip before every background pass);
//! * every server→client request is answered immediately with `null`;
//! * every `textDocument/publishDiagnostics` is recorded with uri + version;
//! * every `window/logMessage` is recorded; lines `verif:idle handled=<n> bg_pending=<m>` (LS gate
//!   hook, `#[cfg(veryl_verif)]` in `crates/languageserver/src/server.rs`) are the only
//!   synchronisation the client uses — it never sleeps to "let the server settle".
//!
//! The child runs in a private mount namespace with its scratch root bind-mounted on the canonical
//! path `CANON` (same trick as `proj.rs`): URIs, cache manifests and diagnostics are then
//! byte-comparable between servers that ran in different scratch directories.
//!
//! Timeouts in this file only detect a dead or hung child (reported as machinery error by the
//! caller), they never decide what is observed.

use serde_json::{Value, json};
use std::io::{BufRead, BufReader, Read, Write};
use std::os::unix::process::CommandExt;
use std::path::{Path, PathBuf};
use std::process::{Child, ChildStdin, Command, Stdio};
use std::sync::mpsc::{self, Receiver, RecvTimeoutError};
use std::time::{Duration, Instant};

pub const CANON: &str = "/dev/shm/vmc-canon";

/// Hang detector only. Generous: the machine may be heavily loaded.
const DEAD_AFTER: Duration = Duration::from_secs(180);

#[derive(Clone, Debug, PartialEq, Eq, PartialOrd, Ord)]
pub struct Diag {
    pub range: (u64, u64, u64, u64),
    pub severity: u64,
    pub code: String,
    pub message: String,
    /// relatedInformation entries as "uri:line:char-line:char message"
    pub related: Vec<String>,
}

impl Diag {
    pub fn to_json(&self) -> Value {
        json!({
            "range": [self.range.0, self.range.1, self.range.2, self.range.3],
            "severity": self.severity,
            "code": self.code,
            "message": self.message,
            "related": self.related,
        })
    }
}

#[derive(Clone, Debug)]
pub struct Published {
    pub uri: String,
    pub version: Option<i64>,
    pub diags: Vec<Diag>,
    /// number of MsgToServer handled (last idle marker seen) when this arrived
    pub seq: usize,
}

#[derive(Clone, Copy, Debug, PartialEq, Eq)]
pub struct Idle {
    pub handled: u64,
    pub bg_pending: u64,
}

pub struct LsClient {
    child: Child,
    stdin: ChildStdin,
    rx: Receiver<Option<Value>>,
    gate: Option<std::fs::File>,
    stderr_path: PathBuf,
    next_id: i64,
    /// MsgToServer messages the server thread must have consumed so far.
    pub expected_handled: u64,
    pub last_idle: Option<Idle>,
    pub published: Vec<Published>,
    pub log: Vec<String>,
    pub messages_sent: u64,
    pub idle_markers: u64,
}

fn parse_idle(msg: &str) -> Option<Idle> {
    let rest = msg.strip_prefix("verif:idle handled=")?;
    let (h, p) = rest.split_once(" bg_pending=")?;
    Some(Idle {
        handled: h.trim().parse().ok()?,
        bg_pending: p.trim().parse().ok()?,
    })
}

fn parse_diag(d: &Value) -> Diag {
    let r = &d["range"];
    let code = match &d["code"] {
        Value::String(s) => s.clone(),
        Value::Null => String::new(),
        x => x.to_string(),
    };
    Diag {
        range: (
            r["start"]["line"].as_u64().unwrap_or(u64::MAX),
            r["start"]["character"].as_u64().unwrap_or(u64::MAX),
            r["end"]["line"].as_u64().unwrap_or(u64::MAX),
            r["end"]["character"].as_u64().unwrap_or(u64::MAX),
        ),
        severity: d["severity"].as_u64().unwrap_or(0),
        code,
        message: d["message"].as_str().unwrap_or("").to_string(),
        related: d["relatedInformation"]
            .as_array()
            .map(|a| {
                a.iter()
                    .map(|x| {
                        let r = &x["location"]["range"];
                        format!(
                            "{}:{}:{}-{}:{} {}",
                            x["location"]["uri"].as_str().unwrap_or("?"),
                            r["start"]["line"],
                            r["start"]["character"],
                            r["end"]["line"],
                            r["end"]["character"],
                            x["message"].as_str().unwrap_or("")
                        )
                    })
                    .collect()
            })
            .unwrap_or_default(),
    }
}

pub fn file_uri(canon_path: &str) -> String {
    format!("file://{canon_path}")
}

impl LsClient {
    /// Starts `bin` with `root` (layout: `p/` project, `home/`, `cache/`) mounted on `CANON`,
    /// cwd = project. `gated` arms the LS gate hook.
    pub fn spawn(bin: &Path, root: &Path, gated: bool) -> Result<LsClient, String> {
        std::fs::create_dir_all(CANON).map_err(|e| format!("cannot create {CANON}: {e}"))?;
        for d in ["p", "home", "cache"] {
            std::fs::create_dir_all(root.join(d)).map_err(|e| format!("mkdir: {e}"))?;
        }
        let fifo = root.join("gate.fifo");
        let _ = std::fs::remove_file(&fifo);
        let gate = if gated {
            let c = std::ffi::CString::new(fifo.to_str().unwrap()).unwrap();
            if unsafe { libc::mkfifo(c.as_ptr(), 0o600) } != 0 {
                return Err(format!("mkfifo: {}", std::io::Error::last_os_error()));
            }
            // O_RDWR on a FIFO never blocks on Linux and keeps a writer alive for the child's life.
            Some(
                std::fs::OpenOptions::new()
                    .read(true)
                    .write(true)
                    .open(&fifo)
                    .map_err(|e| format!("open fifo: {e}"))?,
            )
        } else {
            None
        };
        let stderr_path = root.join("ls.stderr");
        let stderr = std::fs::File::create(&stderr_path).map_err(|e| format!("stderr file: {e}"))?;

        let mut cmd = Command::new(bin);
        let src = std::ffi::CString::new(root.to_str().unwrap()).unwrap();
        let dst = std::ffi::CString::new(CANON).unwrap();
        let cwd = std::ffi::CString::new(format!("{CANON}/p")).unwrap();
        let slash = std::ffi::CString::new("/").unwrap();
        unsafe {
            cmd.pre_exec(move || {
                if libc::unshare(libc::CLONE_NEWNS) != 0 {
                    return Err(std::io::Error::last_os_error());
                }
                if libc::mount(
                    std::ptr::null(),
                    slash.as_ptr(),
                    std::ptr::null(),
                    libc::MS_REC | libc::MS_PRIVATE,
                    std::ptr::null(),
                ) != 0
                {
                    return Err(std::io::Error::last_os_error());
                }
                if libc::mount(src.as_ptr(), dst.as_ptr(), std::ptr::null(), libc::MS_BIND, std::ptr::null()) != 0 {
                    return Err(std::io::Error::last_os_error());
                }
                if libc::chdir(cwd.as_ptr()) != 0 {
                    return Err(std::io::Error::last_os_error());
                }
                // die with the harness (no stray servers if the harness is killed)
                libc::prctl(libc::PR_SET_PDEATHSIG, libc::SIGKILL);
                Ok(())
            });
        }
        cmd.env_clear();
        cmd.env("PATH", std::env::var("PATH").unwrap_or_else(|_| "/usr/bin:/bin".into()));
        cmd.env("HOME", format!("{CANON}/home"));
        cmd.env("XDG_CACHE_HOME", format!("{CANON}/cache"));
        cmd.env("NO_COLOR", "1");
        cmd.env("TERM", "dumb");
        // the server only needs a couple of runtime threads; keeps 16 parallel servers cheap
        cmd.env("TOKIO_WORKER_THREADS", "2");
        if gated {
            cmd.env("VERYL_VERIF_LS_GATE", format!("{CANON}/gate.fifo"));
        }
        // detection demos: env-switched mutants compiled into a development build of the server
        for (k, v) in std::env::vars() {
            if k.starts_with("VERYL_VERIF_MUT") {
                cmd.env(k, v);
            }
        }
        cmd.stdin(Stdio::piped()).stdout(Stdio::piped()).stderr(Stdio::from(stderr));
        let mut child = cmd.spawn().map_err(|e| format!("spawn {}: {e}", bin.display()))?;
        let stdin = child.stdin.take().unwrap();
        let stdout = child.stdout.take().unwrap();
        let (tx, rx) = mpsc::channel::<Option<Value>>();
        std::thread::spawn(move || {
            let mut r = BufReader::new(stdout);
            loop {
                let mut len: Option<usize> = None;
                loop {
                    let mut line = String::new();
                    match r.read_line(&mut line) {
                        Ok(0) | Err(_) => {
                            let _ = tx.send(None);
                            return;
                        }
                        Ok(_) => {}
                    }
                    let l = line.trim_end();
                    if l.is_empty() {
                        break;
                    }
                    if let Some(v) = l.strip_prefix("Content-Length:") {
                        len = v.trim().parse().ok();
                    }
                }
                let Some(n) = len else {
                    let _ = tx.send(None);
                    return;
                };
                let mut buf = vec![0u8; n];
                if r.read_exact(&mut buf).is_err() {
                    let _ = tx.send(None);
                    return;
                }
                match serde_json::from_slice::<Value>(&buf) {
                    Ok(v) => {
                        if tx.send(Some(v)).is_err() {
                            return;
                        }
                    }
                    Err(_) => {
                        let _ = tx.send(None);
                        return;
                    }
                }
            }
        });
        Ok(LsClient {
            child,
            stdin,
            rx,
            gate,
            stderr_path,
            next_id: 0,
            expected_handled: 0,
            last_idle: None,
            published: vec![],
            log: vec![],
            messages_sent: 0,
            idle_markers: 0,
        })
    }

    pub fn stderr_text(&self) -> String {
        std::fs::read_to_string(&self.stderr_path).unwrap_or_default()
    }

    fn send_raw(&mut self, v: &Value) -> Result<(), String> {
        let body = serde_json::to_vec(v).unwrap();
        let head = format!("Content-Length: {}\r\n\r\n", body.len());
        self.stdin
            .write_all(head.as_bytes())
            .and_then(|_| self.stdin.write_all(&body))
            .and_then(|_| self.stdin.flush())
            .map_err(|e| format!("write to server: {e}; stderr: {}", self.stderr_tail()))?;
        self.messages_sent += 1;
        Ok(())
    }

    fn stderr_tail(&self) -> String {
        let t = self.stderr_text();
        let n = t.len().saturating_sub(600);
        t[n..].replace('\n', " | ")
    }

    /// Receives and dispatches one message from the server. Ok(Some(response)) if it was a
    /// response to one of our requests.
    fn pump_one(&mut self, deadline: Instant) -> Result<Option<Value>, String> {
        loop {
            match self.rx.recv_timeout(Duration::from_millis(250)) {
                Ok(Some(v)) => return self.dispatch(v),
                Ok(None) => return Err(format!("server closed its output; stderr: {}", self.stderr_tail())),
                Err(RecvTimeoutError::Disconnected) => return Err("reader thread gone".into()),
                Err(RecvTimeoutError::Timeout) => {
                    let e = self.stderr_text();
                    if e.contains("panicked at") {
                        return Err(format!("server panicked: {}", self.stderr_tail()));
                    }
                    if let Ok(Some(st)) = self.child.try_wait() {
                        return Err(format!("server exited ({st}); stderr: {}", self.stderr_tail()));
                    }
                    if Instant::now() > deadline {
                        return Err(format!(
                            "no message from server for {}s (hung?); last idle {:?}; stderr: {}",
                            DEAD_AFTER.as_secs(),
                            self.last_idle,
                            self.stderr_tail()
                        ));
                    }
                }
            }
        }
    }

    fn dispatch(&mut self, v: Value) -> Result<Option<Value>, String> {
        let method = v.get("method").and_then(|m| m.as_str()).map(|s| s.to_string());
        match (method, v.get("id")) {
            (Some(_m), Some(id)) if !id.is_null() => {
                // server -> client request: answer null
                let id = id.clone();
                self.send_raw(&json!({"jsonrpc":"2.0","id":id,"result":null}))?;
                Ok(None)
            }
            (Some(m), _) => {
                match m.as_str() {
                    "textDocument/publishDiagnostics" => {
                        let p = &v["params"];
                        let mut diags: Vec<Diag> =
                            p["diagnostics"].as_array().map(|a| a.iter().map(parse_diag).collect()).unwrap_or_default();
                        diags.sort();
                        self.published.push(Published {
                            uri: p["uri"].as_str().unwrap_or("").to_string(),
                            version: p["version"].as_i64(),
                            diags,
                            seq: self.published.len(),
                        });
                    }
                    "window/logMessage" => {
                        let msg = v["params"]["message"].as_str().unwrap_or("").to_string();
                        if let Some(i) = parse_idle(&msg) {
                            self.last_idle = Some(i);
                            self.idle_markers += 1;
                        }
                        self.log.push(msg);
                    }
                    _ => {}
                }
                Ok(None)
            }
            (None, Some(_)) => Ok(Some(v)),
            _ => Ok(None),
        }
    }

    pub fn notify(&mut self, method: &str, params: Value) -> Result<(), String> {
        self.send_raw(&json!({"jsonrpc":"2.0","method":method,"params":params}))
    }

    pub fn request(&mut self, method: &str, params: Value) -> Result<Value, String> {
        self.next_id += 1;
        let id = self.next_id;
        self.send_raw(&json!({"jsonrpc":"2.0","id":id,"method":method,"params":params}))?;
        let deadline = Instant::now() + DEAD_AFTER;
        loop {
            if let Some(resp) = self.pump_one(deadline)? {
                if resp["id"].as_i64() == Some(id) {
                    return Ok(resp);
                }
            }
        }
    }

    /// Waits for the next idle marker whose `handled` equals the number of MsgToServer messages
    /// the server thread must have consumed. `fresh_marker`: require a marker received after this
    /// call started (used after a token or a message that is known to produce a marker).
    pub fn wait_idle(&mut self) -> Result<Idle, String> {
        let deadline = Instant::now() + DEAD_AFTER;
        let start_markers = self.idle_markers;
        loop {
            if self.idle_markers > start_markers {
                if let Some(i) = self.last_idle {
                    if i.handled == self.expected_handled {
                        return Ok(i);
                    }
                    if i.handled > self.expected_handled {
                        return Err(format!(
                            "server handled {} messages, client expected {} (message accounting wrong)",
                            i.handled, self.expected_handled
                        ));
                    }
                }
            }
            self.pump_one(deadline)?;
        }
    }

    /// Sends a message that makes the Backend enqueue `n_msgs` MsgToServer, then waits until the
    /// server thread has consumed them and found its queue empty.
    pub fn notify_and_settle(&mut self, method: &str, params: Value, n_msgs: u64) -> Result<Idle, String> {
        self.notify(method, params)?;
        if n_msgs == 0 {
            return self.barrier();
        }
        self.expected_handled += n_msgs;
        self.wait_idle()
    }

    pub fn request_and_settle(&mut self, method: &str, params: Value, n_msgs: u64) -> Result<(Value, Idle), String> {
        // the marker may arrive before or after the response; accept both orders
        self.next_id += 1;
        let id = self.next_id;
        self.send_raw(&json!({"jsonrpc":"2.0","id":id,"method":method,"params":params}))?;
        self.expected_handled += n_msgs;
        let deadline = Instant::now() + DEAD_AFTER;
        let start_markers = self.idle_markers;
        let mut resp: Option<Value> = None;
        loop {
            let settled = n_msgs == 0
                || (self.idle_markers > start_markers
                    && self.last_idle.map(|i| i.handled == self.expected_handled).unwrap_or(false));
            if let (true, Some(r)) = (settled, &resp) {
                let idle = self.last_idle.unwrap_or(Idle { handled: 0, bg_pending: 0 });
                return Ok((r.clone(), idle));
            }
            if let Some(r) = self.pump_one(deadline)? {
                if r["id"].as_i64() == Some(id) {
                    resp = Some(r);
                }
            }
        }
    }

    /// Barrier for client messages that produce no MsgToServer (didSave, didClose: the Backend has
    /// no handler): a `workspace/symbol` request with a query no symbol contains. It goes through
    /// the server thread (one MsgToServer, read-only: iterates the symbol table) and its response
    /// proves everything sent before has been read from stdin.
    pub fn barrier(&mut self) -> Result<Idle, String> {
        let (_r, idle) = self.request_and_settle("workspace/symbol", json!({"query": "\u{1}verif-barrier\u{1}"}), 1)?;
        Ok(idle)
    }

    /// Calibration only: a round trip through the server thread that accepts whatever `handled`
    /// count the server reports (used to *measure* how many MsgToServer a notification produces).
    pub fn barrier_any(&mut self) -> Result<Idle, String> {
        self.next_id += 1;
        let id = self.next_id;
        let start_markers = self.idle_markers;
        self.send_raw(&json!({"jsonrpc":"2.0","id":id,"method":"workspace/symbol","params":{"query":"\u{1}verif-barrier\u{1}"}}))?;
        let deadline = Instant::now() + DEAD_AFTER;
        let mut seen = false;
        loop {
            if seen && self.idle_markers > start_markers {
                return self.last_idle.ok_or_else(|| "no idle marker".to_string());
            }
            if let Some(r) = self.pump_one(deadline)? {
                if r["id"].as_i64() == Some(id) {
                    seen = true;
                }
            }
        }
    }

    /// Hands the server one background token and waits for the idle marker that follows the step.
    pub fn bg_step(&mut self) -> Result<Idle, String> {
        let Some(g) = self.gate.as_mut() else {
            return Err("bg_step without gate".into());
        };
        g.write_all(b"t").and_then(|_| g.flush()).map_err(|e| format!("gate write: {e}"))?;
        self.wait_idle()
    }

    pub fn initialize(&mut self) -> Result<Idle, String> {
        let root_uri = file_uri(&format!("{CANON}/p"));
        let params = json!({
            "processId": null,
            "rootUri": root_uri,
            "capabilities": {
                "window": {"workDoneProgress": false},
                "textDocument": {"publishDiagnostics": {"versionSupport": true, "relatedInformation": true}},
                "workspace": {"fileOperations": {"willRename": true, "didRename": true, "willDelete": true}}
            },
            "workspaceFolders": [{"uri": root_uri, "name": "p"}]
        });
        let (_resp, _idle) = self.request_and_settle("initialize", params, 1)?;
        self.notify("initialized", json!({}))?;
        // `initialized` enqueues nothing; make sure it was consumed before anything else is sent
        self.barrier()
    }

    pub fn kill(mut self) {
        let _ = self.child.kill();
        let _ = self.child.wait();
    }
}

impl Drop for LsClient {
    fn drop(&mut self) {
        let _ = self.child.kill();
        let _ = self.child.wait();
    }
}

//! Reference model for C31: release versions `major.minor.patch` (no pre-release, no build
//! metadata), Cargo-style requirements, and the resolution rule of the property text:
//! "the locked release if it still satisfies the requirement, otherwise the highest published
//! release that does". Shares no code with veryl (which uses the `semver` crate).

#[derive(Clone, Copy, Debug, PartialEq, Eq, PartialOrd, Ord, Hash)]
pub struct Ver(pub u64, pub u64, pub u64);

impl Ver {
    pub fn parse(s: &str) -> Option<Ver> {
        let mut it = s.trim().split('.');
        let a = it.next()?.parse().ok()?;
        let b = it.next()?.parse().ok()?;
        let c = it.next()?.parse().ok()?;
        if it.next().is_some() {
            return None;
        }
        Some(Ver(a, b, c))
    }
    pub fn text(&self) -> String {
        format!("{}.{}.{}", self.0, self.1, self.2)
    }
}

#[derive(Clone, Copy, Debug, PartialEq, Eq)]
enum Op {
    Caret,
    Tilde,
    Eq,
    Gt,
    Ge,
    Lt,
    Le,
    Any,
}

#[derive(Clone, Copy, Debug, PartialEq, Eq)]
struct Cmp {
    op: Op,
    major: u64,
    minor: Option<u64>,
    patch: Option<u64>,
}

#[derive(Clone, Debug, PartialEq, Eq)]
pub struct Req(Vec<Cmp>);

impl Req {
    pub fn parse(s: &str) -> Option<Req> {
        let mut out = vec![];
        for part in s.split(',') {
            let p = part.trim();
            if p == "*" {
                out.push(Cmp { op: Op::Any, major: 0, minor: None, patch: None });
                continue;
            }
            let (op, rest) = if let Some(r) = p.strip_prefix(">=") {
                (Op::Ge, r)
            } else if let Some(r) = p.strip_prefix("<=") {
                (Op::Le, r)
            } else if let Some(r) = p.strip_prefix('>') {
                (Op::Gt, r)
            } else if let Some(r) = p.strip_prefix('<') {
                (Op::Lt, r)
            } else if let Some(r) = p.strip_prefix('=') {
                (Op::Eq, r)
            } else if let Some(r) = p.strip_prefix('^') {
                (Op::Caret, r)
            } else if let Some(r) = p.strip_prefix('~') {
                (Op::Tilde, r)
            } else {
                (Op::Caret, p)
            };
            let mut it = rest.trim().split('.');
            let major = it.next()?.parse().ok()?;
            let minor = match it.next() {
                Some("*") | None => None,
                Some(x) => Some(x.parse().ok()?),
            };
            let patch = match it.next() {
                Some("*") | None => None,
                Some(x) => Some(x.parse().ok()?),
            };
            out.push(Cmp { op, major, minor, patch });
        }
        Some(Req(out))
    }

    pub fn matches(&self, v: Ver) -> bool {
        self.0.iter().all(|c| c.matches(v))
    }
}

impl Cmp {
    /// inclusive lower bound with missing parts = 0
    fn low(&self) -> Ver {
        Ver(self.major, self.minor.unwrap_or(0), self.patch.unwrap_or(0))
    }
    fn matches(&self, v: Ver) -> bool {
        match self.op {
            Op::Any => true,
            Op::Eq => {
                v.0 == self.major && self.minor.map(|m| v.1 == m).unwrap_or(true) && self.patch.map(|p| v.2 == p).unwrap_or(true)
            }
            Op::Gt => match (self.minor, self.patch) {
                (Some(m), Some(p)) => v > Ver(self.major, m, p),
                (Some(m), None) => (v.0, v.1) > (self.major, m),
                _ => v.0 > self.major,
            },
            Op::Ge => v >= self.low(),
            Op::Lt => v < self.low(),
            Op::Le => match (self.minor, self.patch) {
                (Some(m), Some(p)) => v <= Ver(self.major, m, p),
                (Some(m), None) => (v.0, v.1) <= (self.major, m),
                _ => v.0 <= self.major,
            },
            Op::Tilde => {
                // ~I.J.K: >=I.J.K, <I.(J+1).0 ; ~I.J: same with K=0 ; ~I: >=I.0.0, <(I+1).0.0
                if v < self.low() {
                    return false;
                }
                match self.minor {
                    Some(m) => v.0 == self.major && v.1 == m,
                    None => v.0 == self.major,
                }
            }
            Op::Caret => {
                if v < self.low() {
                    return false;
                }
                // the left-most non-zero given component must not change
                if self.major > 0 {
                    return v.0 == self.major;
                }
                match self.minor {
                    None => v.0 == 0,
                    Some(m) if m > 0 => v.0 == 0 && v.1 == m,
                    Some(_) => match self.patch {
                        None => v.0 == 0 && v.1 == 0,
                        Some(p) => v == Ver(0, 0, p),
                    },
                }
            }
        }
    }
}

/// The property's rule. `None` = no published release satisfies the requirement.
pub fn resolve(published: &[Ver], req: &Req, locked: Option<Ver>) -> Option<Ver> {
    if let Some(l) = locked {
        if req.matches(l) {
            return Some(l);
        }
    }
    published.iter().copied().filter(|v| req.matches(*v)).max()
}

#[cfg(test)]
mod tests {
    use super::*;
    #[test]
    fn menu() {
        let v = |s: &str| Ver::parse(s).unwrap();
        let all = [v("0.1.0"), v("0.1.1"), v("0.2.0"), v("1.0.0")];
        let m = |r: &str| -> Vec<String> { all.iter().filter(|x| Req::parse(r).unwrap().matches(**x)).map(|x| x.text()).collect() };
        assert_eq!(m("0.1"), ["0.1.0", "0.1.1"]);
        assert_eq!(m("^0.1.0"), ["0.1.0", "0.1.1"]);
        assert_eq!(m("~0.1.0"), ["0.1.0", "0.1.1"]);
        assert_eq!(m(">=0.1.1"), ["0.1.1", "0.2.0", "1.0.0"]);
        assert_eq!(m("<0.2"), ["0.1.0", "0.1.1"]);
        assert_eq!(m("*"), ["0.1.0", "0.1.1", "0.2.0", "1.0.0"]);
        assert_eq!(m("=0.2.0"), ["0.2.0"]);
        assert_eq!(m("1"), ["1.0.0"]);
        assert_eq!(m("^0.1.1"), ["0.1.1"]);
    }
}

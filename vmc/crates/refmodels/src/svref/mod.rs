//! R2 — a small event-driven interpreter for the subset of SystemVerilog that veryl's emitter
//! produces for synthesizable designs. Own tokenizer, parser, elaborator and simulator; expression
//! semantics from R1 (`crate::bits`). Shares no code with veryl.
//!
//! Anything outside the subset answers `SvError::Unsupported(construct)`; callers count such a
//! design as *skipped with reason*, never as pass or fail.

pub mod ast;
pub mod elab;
pub mod eval;
pub mod ir;
pub mod lex;
pub mod parse;
pub mod sim;

pub use ir::{PortDir, PortInfo};
pub use sim::Design;

#[derive(Clone, Debug, PartialEq, Eq)]
pub enum SvError {
    /// construct outside the supported subset
    Unsupported(String),
    /// text that is not SystemVerilog as far as R2 can tell
    Parse(String),
    /// elaboration error (unknown name, type mismatch ...)
    Elab(String),
    /// a constant expression read a variable
    NotConstant(String),
    /// combinational logic did not settle (machinery error, not a verdict)
    Oscillation(String),
    Runtime(String),
}

impl std::fmt::Display for SvError {
    fn fmt(&self, f: &mut std::fmt::Formatter<'_>) -> std::fmt::Result {
        match self {
            SvError::Unsupported(s) => write!(f, "unsupported: {s}"),
            SvError::Parse(s) => write!(f, "parse error: {s}"),
            SvError::Elab(s) => write!(f, "elaboration error: {s}"),
            SvError::NotConstant(s) => write!(f, "not constant: {s}"),
            SvError::Oscillation(s) => write!(f, "oscillation: {s}"),
            SvError::Runtime(s) => write!(f, "runtime error: {s}"),
        }
    }
}

#[cfg(test)]
mod tests;

//! R2 elaborator, part 2: name resolution and expressions.

use super::*;

#[path = "elab_stmt.rs"]
mod elab_stmt;

/// typed expression: resolved expression plus (for reference-like expressions) the full type
pub(crate) struct TE {
    pub e: RExpr,
    pub ty: Option<Ty>,
}

#[derive(Clone)]
pub(crate) enum RefBase {
    Var(Loc),
    Expr(Box<RExpr>),
}

/// a reference being built: base object plus selections applied so far
#[derive(Clone)]
pub(crate) struct RefAcc {
    pub base: RefBase,
    /// type of the selected part
    pub ty: Ty,
    /// unpacked dimensions of the base variable (all of them)
    pub var_unpacked: Vec<Range>,
    pub elem: Vec<(RExpr, Range)>,
    pub sels: Vec<Sel>,
    pub base_w: usize,
}

pub(crate) enum Resolved {
    Acc(RefAcc),
    Sym(Sym),
}

pub(crate) fn const_int(i: i64) -> RExpr {
    RExpr { k: RK::Const(V::from_u128(i as u128, 32, true)), w: 32, signed: true }
}

fn bin_op(op: &str) -> R<BinOp> {
    use BinOp::*;
    Ok(match op {
        "+" => Add,
        "-" => Sub,
        "*" => Mul,
        "/" => Div,
        "%" => Mod,
        "**" => Pow,
        "&" => And,
        "|" => Or,
        "^" => Xor,
        "~^" | "^~" => Xnor,
        "<<" => Shl,
        ">>" => Shr,
        "<<<" => AShl,
        ">>>" => AShr,
        "<" => Lt,
        "<=" => Le,
        ">" => Gt,
        ">=" => Ge,
        "==" => Eq,
        "!=" => Ne,
        "===" => CaseEq,
        "!==" => CaseNe,
        "==?" => WildEq,
        "!=?" => WildNe,
        "&&" => LogAnd,
        "||" => LogOr,
        _ => return Err(SvError::Unsupported(format!("binary operator {op}"))),
    })
}

impl Elab {
    // ------------------------------------------------------------------ name resolution
    fn sym_to_resolved(&mut self, sym: Sym) -> Resolved {
        match sym {
            Sym::Var { loc, ty } => {
                let base_w = ty.packed_width();
                Resolved::Acc(RefAcc { base: RefBase::Var(loc), var_unpacked: ty.unpacked.clone(), ty, elem: vec![], sels: vec![], base_w })
            }
            Sym::Param { v, ty } => {
                let w = v.width();
                let signed = ty.is_signed();
                let mut v = v;
                v.signed = signed;
                let e = RExpr { k: RK::Const(v), w, signed };
                Resolved::Acc(RefAcc { base: RefBase::Expr(Box::new(e)), var_unpacked: vec![], ty, elem: vec![], sels: vec![], base_w: w })
            }
            s => Resolved::Sym(s),
        }
    }

    pub(crate) fn resolve_ref(&mut self, e: &Expr, scope: usize) -> R<Resolved> {
        match e {
            Expr::Ident { pkg, name } => {
                let sym = match pkg {
                    Some(p) => {
                        let ps = self.package(p)?;
                        self.scopes[ps].syms.get(name).cloned()
                    }
                    None => self.lookup(scope, name),
                };
                let sym = sym.ok_or_else(|| SvError::Elab(format!("unknown identifier {}{name}", pkg.as_ref().map(|p| format!("{p}::")).unwrap_or_default())))?;
                Ok(self.sym_to_resolved(sym))
            }
            Expr::Member(inner, name) => match self.resolve_ref(inner, scope)? {
                Resolved::Sym(Sym::Scope(s)) => {
                    let sym = self.scopes[s].syms.get(name).cloned().ok_or_else(|| {
                        SvError::Elab(format!("{name} not found in scope '{}'", self.scopes[s].path))
                    })?;
                    Ok(self.sym_to_resolved(sym))
                }
                Resolved::Sym(_) => Err(SvError::Elab(format!("member {name} of something that is not an instance or a value"))),
                Resolved::Acc(mut acc) => {
                    if !acc.ty.unpacked.is_empty() || !acc.ty.packed.is_empty() {
                        return Err(SvError::Elab(format!("member {name} of an array")));
                    }
                    let TyKind::Struct(def) = acc.ty.kind.clone() else {
                        return Err(SvError::Elab(format!("member {name} of a non-struct value")));
                    };
                    // fields are declared MSB first; unions overlay all members at the LSB
                    let mut off_from_msb = 0usize;
                    for (fname, fty) in &def.fields {
                        let fw = fty.packed_width();
                        if fname == name {
                            let off = if def.union { 0 } else { def.width - off_from_msb - fw };
                            acc.sels.push(Sel::Field { off, w: fw });
                            acc.ty = fty.clone();
                            return Ok(Resolved::Acc(acc));
                        }
                        off_from_msb += fw;
                    }
                    Err(SvError::Elab(format!("struct has no member {name}")))
                }
            },
            Expr::Index(inner, idx) => match self.resolve_ref(inner, scope)? {
                Resolved::Sym(Sym::ScopeArr(arr)) => {
                    let i = self.const_i64(idx, scope)?;
                    let (dims, scopes) = (&arr.0, &arr.1);
                    let p = pos_from_left(dims[0], i).ok_or_else(|| SvError::Elab(format!("instance array index {i} out of range")))?;
                    let inner_n: usize = dims[1..].iter().map(|r| range_len(*r)).product();
                    if dims.len() == 1 {
                        Ok(Resolved::Sym(Sym::Scope(scopes[p])))
                    } else {
                        let sub = scopes[p * inner_n..(p + 1) * inner_n].to_vec();
                        Ok(Resolved::Sym(Sym::ScopeArr(Rc::new((dims[1..].to_vec(), sub)))))
                    }
                }
                Resolved::Sym(Sym::GenArr(map)) => {
                    let i = self.const_i64(idx, scope)?;
                    let s = map.get(&i).ok_or_else(|| SvError::Elab(format!("generate block index {i} does not exist")))?;
                    Ok(Resolved::Sym(Sym::Scope(*s)))
                }
                Resolved::Sym(_) => Err(SvError::Elab("index applied to something that is not a value".into())),
                Resolved::Acc(mut acc) => {
                    let ie = self.elab_expr(idx, scope)?.e;
                    if !acc.ty.unpacked.is_empty() {
                        if !matches!(acc.base, RefBase::Var(_)) {
                            return Err(SvError::Unsupported("index into an unpacked array value that is not a variable".into()));
                        }
                        let dim = acc.ty.unpacked.remove(0);
                        acc.elem.push((ie, dim));
                        return Ok(Resolved::Acc(acc));
                    }
                    let (dim, ew) = self.peel_packed(&mut acc.ty);
                    acc.sels.push(Sel::Bit { idx: Box::new(ie), dim, ew });
                    Ok(Resolved::Acc(acc))
                }
            },
            Expr::Range(inner, a, b) => {
                let Resolved::Acc(mut acc) = self.resolve_ref(inner, scope)? else {
                    return Err(SvError::Elab("part-select of something that is not a value".into()));
                };
                if !acc.ty.unpacked.is_empty() {
                    return Err(SvError::Unsupported("slice of an unpacked array".into()));
                }
                let a = self.const_i64(a, scope)?;
                let b = self.const_i64(b, scope)?;
                let (dim, ew) = self.peel_packed(&mut acc.ty);
                // direction must match the declaration (a reversed part-select is illegal)
                if (dim.0 >= dim.1 && a < b) || (dim.0 < dim.1 && a > b) {
                    return Err(SvError::Elab(format!("part-select [{a}:{b}] direction does not match the declaration")));
                }
                let n = ((a - b).unsigned_abs() + 1) as usize;
                acc.sels.push(Sel::Part { a, b, dim, ew });
                acc.ty = Ty::bits(n * ew, false, acc.ty.two_state);
                Ok(Resolved::Acc(acc))
            }
            Expr::IndexedRange(inner, base, width, up) => {
                let Resolved::Acc(mut acc) = self.resolve_ref(inner, scope)? else {
                    return Err(SvError::Elab("part-select of something that is not a value".into()));
                };
                if !acc.ty.unpacked.is_empty() {
                    return Err(SvError::Unsupported("slice of an unpacked array".into()));
                }
                let be = self.elab_expr(base, scope)?.e;
                let n = self.const_i64(width, scope)?;
                if n <= 0 || n > (1 << 20) {
                    return Err(SvError::Elab("indexed part-select width must be positive".into()));
                }
                let (dim, ew) = self.peel_packed(&mut acc.ty);
                acc.sels.push(Sel::Indexed { base: Box::new(be), n: n as usize, up: *up, dim, ew });
                acc.ty = Ty::bits(n as usize * ew, false, acc.ty.two_state);
                Ok(Resolved::Acc(acc))
            }
            other => {
                // any other expression used as a base of a selection
                let te = self.elab_expr(other, scope)?;
                let ty = te.ty.clone().unwrap_or_else(|| Ty::bits(te.e.w, te.e.signed, false));
                let w = te.e.w;
                Ok(Resolved::Acc(RefAcc { base: RefBase::Expr(Box::new(te.e)), var_unpacked: vec![], ty, elem: vec![], sels: vec![], base_w: w }))
            }
        }
    }

    /// removes the outermost packed dimension of `ty` (a scalar is treated as `[0:0]`, a struct or
    /// enum without dimensions as a plain vector) and returns (dimension, element width)
    fn peel_packed(&mut self, ty: &mut Ty) -> (Range, usize) {
        if !ty.packed.is_empty() {
            let dim = ty.packed.remove(0);
            let ew = ty.packed_width();
            if ty.packed.is_empty() && matches!(ty.kind, TyKind::Bits) {
                ty.signed = false;
            } else if matches!(ty.kind, TyKind::Bits) {
                ty.signed = false;
            }
            (dim, ew)
        } else {
            let w = ty.packed_width();
            let two = ty.two_state;
            *ty = Ty::bits(1, false, two);
            ((w as i64 - 1, 0), 1)
        }
    }

    /// resolves an expression that must denote an instance (interface port connection)
    pub(crate) fn elab_ref_scope(&mut self, e: &Expr, scope: usize) -> R<Option<Sym>> {
        match self.resolve_ref(e, scope)? {
            Resolved::Sym(s) => Ok(Some(s)),
            Resolved::Acc(_) => Ok(None),
        }
    }

    pub(crate) fn strides(dims: &[Range]) -> Vec<usize> {
        let mut s = vec![1usize; dims.len()];
        for k in (0..dims.len().saturating_sub(1)).rev() {
            s[k] = s[k + 1] * range_len(dims[k + 1]);
        }
        s
    }

    pub(crate) fn acc_to_lref(&self, acc: &RefAcc) -> R<LRef> {
        let RefBase::Var(loc) = acc.base else {
            return Err(SvError::Elab("assignment target is not a variable".into()));
        };
        if !acc.ty.unpacked.is_empty() {
            return Err(SvError::Unsupported("whole unpacked array used where a packed value is needed".into()));
        }
        Ok(LRef {
            loc,
            elem: acc.elem.clone(),
            strides: Self::strides(&acc.var_unpacked),
            sels: acc.sels.clone(),
            base_w: acc.base_w,
            w: acc.ty.packed_width(),
        })
    }

    pub(crate) fn acc_to_expr(&self, acc: &RefAcc) -> R<TE> {
        if !acc.ty.unpacked.is_empty() {
            return Err(SvError::Unsupported("whole unpacked array used where a packed value is needed".into()));
        }
        let w = acc.ty.packed_width();
        let signed = acc.ty.is_signed();
        let e = match &acc.base {
            RefBase::Var(_) => RExpr { k: RK::Read(self.acc_to_lref(acc)?), w, signed },
            RefBase::Expr(b) => {
                if acc.sels.is_empty() {
                    let mut b = (**b).clone();
                    b.signed = signed;
                    b
                } else {
                    RExpr { k: RK::Select { base: b.clone(), sels: acc.sels.clone() }, w, signed }
                }
            }
        };
        Ok(TE { e, ty: Some(acc.ty.clone()) })
    }

    /// all elements of an unpacked-array reference, row-major (left index first)
    pub(crate) fn expand_array(&self, acc: &RefAcc) -> Vec<RefAcc> {
        let mut out = vec![acc.clone()];
        while !out[0].ty.unpacked.is_empty() {
            let dim = out[0].ty.unpacked[0];
            let n = range_len(dim);
            let mut next = Vec::with_capacity(out.len() * n);
            for a in &out {
                for p in 0..n {
                    let idx = if dim.0 <= dim.1 { dim.0 + p as i64 } else { dim.0 - p as i64 };
                    let mut b = a.clone();
                    b.ty.unpacked.remove(0);
                    b.elem.push((const_int(idx), dim));
                    next.push(b);
                }
            }
            out = next;
        }
        out
    }

    pub(crate) fn expr_as_type(&mut self, e: &Expr, scope: usize) -> R<Ty> {
        match e {
            Expr::Type(dt) => self.resolve_type(dt, scope),
            Expr::Ident { pkg, name } => {
                let dt = DataType { base: TypeBase::Named { pkg: pkg.clone(), name: name.clone() }, signed: None, packed: vec![] };
                self.resolve_type(&dt, scope)
            }
            _ => Err(SvError::Elab("expected a type".into())),
        }
    }

    fn is_type_expr(&mut self, e: &Expr, scope: usize) -> R<bool> {
        Ok(match e {
            Expr::Type(_) => true,
            Expr::Ident { pkg, name } => {
                let sym = match pkg {
                    Some(p) => {
                        let ps = self.package(p)?;
                        self.scopes[ps].syms.get(name).cloned()
                    }
                    None => self.lookup(scope, name),
                };
                matches!(sym, Some(Sym::Type(_)))
            }
            _ => false,
        })
    }

    pub(crate) fn wrap_assign(e: RExpr, ty: &Ty) -> RExpr {
        RExpr { k: RK::AssignCast { inner: Box::new(e), mask2: ty.two_state_mask() }, w: ty.packed_width(), signed: ty.is_signed() }
    }

    // ------------------------------------------------------------------ expressions
    pub(crate) fn elab_expr(&mut self, e: &Expr, scope: usize) -> R<TE> {
        match e {
            Expr::Num { v, .. } => Ok(TE { e: RExpr { k: RK::Const(v.clone()), w: v.width(), signed: v.signed }, ty: None }),
            Expr::Unbased(b) => Ok(TE { e: RExpr { k: RK::Unbased(*b), w: 1, signed: false }, ty: None }),
            Expr::Str(_) => Err(SvError::Unsupported("string literal".into())),
            Expr::Ident { .. } | Expr::Member(..) | Expr::Index(..) | Expr::Range(..) | Expr::IndexedRange(..) => {
                match self.resolve_ref(e, scope)? {
                    Resolved::Acc(acc) => self.acc_to_expr(&acc),
                    Resolved::Sym(Sym::Type(_)) => Err(SvError::Elab("type used as a value".into())),
                    Resolved::Sym(Sym::Func(..)) => {
                        // call without parentheses
                        self.elab_call(e, &[], scope)
                    }
                    Resolved::Sym(_) => Err(SvError::Elab("instance or block name used as a value".into())),
                }
            }
            Expr::Unary(op, a) => {
                let a = self.elab_expr(a, scope)?.e;
                let (uop, w, signed) = match *op {
                    "+" => (UnOp::Plus, a.w, a.signed),
                    "-" => (UnOp::Neg, a.w, a.signed),
                    "~" => (UnOp::Not, a.w, a.signed),
                    "!" => (UnOp::LogNot, 1, false),
                    "&" => (UnOp::RedAnd, 1, false),
                    "|" => (UnOp::RedOr, 1, false),
                    "^" => (UnOp::RedXor, 1, false),
                    "~&" => (UnOp::RedNand, 1, false),
                    "~|" => (UnOp::RedNor, 1, false),
                    "~^" | "^~" => (UnOp::RedXnor, 1, false),
                    o => return Err(SvError::Unsupported(format!("unary operator {o}"))),
                };
                Ok(TE { e: RExpr { k: RK::Unary(uop, Box::new(a)), w, signed }, ty: None })
            }
            Expr::Binary(op, a, b) => {
                let bop = bin_op(op)?;
                let a = self.elab_expr(a, scope)?.e;
                let b = self.elab_expr(b, scope)?.e;
                use BinOp::*;
                let (w, signed) = match bop {
                    Add | Sub | Mul | Div | Mod | And | Or | Xor | Xnor => (a.w.max(b.w), a.signed && b.signed),
                    // the right operand is self-determined and does not take part in the type (11.6, 11.8.1)
                    Shl | Shr | AShl | AShr | Pow => (a.w, a.signed),
                    _ => (1, false),
                };
                Ok(TE { e: RExpr { k: RK::Binary(bop, Box::new(a), Box::new(b)), w, signed }, ty: None })
            }
            Expr::Cond(c, t, f) => {
                let c = self.elab_expr(c, scope)?.e;
                let t = self.elab_expr(t, scope)?;
                let f = self.elab_expr(f, scope)?;
                let w = t.e.w.max(f.e.w);
                let signed = t.e.signed && f.e.signed;
                let ty = match (&t.ty, &f.ty) {
                    (Some(a), Some(b)) if a == b => Some(a.clone()),
                    _ => None,
                };
                Ok(TE { e: RExpr { k: RK::Cond(Box::new(c), Box::new(t.e), Box::new(f.e)), w, signed }, ty })
            }
            Expr::Concat(parts) => {
                let mut ps = vec![];
                let mut w = 0;
                for p in parts {
                    let x = self.elab_expr(p, scope)?.e;
                    if matches!(x.k, RK::Unbased(_)) {
                        return Err(SvError::Elab("unbased unsized literal in a concatenation".into()));
                    }
                    w += x.w;
                    ps.push(x);
                }
                Ok(TE { e: RExpr { k: RK::Concat(ps), w, signed: false }, ty: None })
            }
            Expr::Repl(n, list) => {
                let n = self.const_i64(n, scope)?;
                if n < 0 || n > (1 << 20) {
                    return Err(SvError::Elab("bad replication count".into()));
                }
                let inner = self.elab_expr(&Expr::Concat(list.clone()), scope)?.e;
                let w = inner.w * n as usize;
                if n == 0 {
                    return Err(SvError::Unsupported("zero replication".into()));
                }
                Ok(TE { e: RExpr { k: RK::Repl(n as usize, Box::new(inner)), w, signed: false }, ty: None })
            }
            Expr::Call { func, args } => self.elab_call(func, args, scope),
            Expr::SysCall { name, args } => self.elab_syscall(name, args, scope),
            Expr::Cast(t, inner) => {
                if self.is_type_expr(t, scope)? {
                    let ty = self.expr_as_type(t, scope)?;
                    if ty.void {
                        return self.elab_expr(inner, scope);
                    }
                    if !ty.unpacked.is_empty() {
                        return Err(SvError::Unsupported("cast to an unpacked array type".into()));
                    }
                    if let Expr::Pattern { ty: None, items } = &**inner {
                        let e = self.elab_pattern(items, &ty, scope)?;
                        return Ok(TE { e, ty: Some(ty) });
                    }
                    let x = self.elab_expr(inner, scope)?.e;
                    Ok(TE { e: Self::wrap_assign(x, &ty), ty: Some(ty) })
                } else {
                    let n = self.const_i64(t, scope)?;
                    if n <= 0 || n > (1 << 20) {
                        return Err(SvError::Elab(format!("size cast to {n} bits")));
                    }
                    let x = self.elab_expr(inner, scope)?.e;
                    let signed = x.signed;
                    Ok(TE { e: RExpr { k: RK::AssignCast { inner: Box::new(x), mask2: None }, w: n as usize, signed }, ty: None })
                }
            }
            Expr::SignCast(s, inner) => {
                let x = self.elab_expr(inner, scope)?.e;
                let w = x.w;
                Ok(TE { e: RExpr { k: RK::SignCast(Box::new(x)), w, signed: *s }, ty: None })
            }
            Expr::Inside(x, items) => {
                let x = self.elab_expr(x, scope)?.e;
                let items = self.elab_inside_items(items, scope)?;
                Ok(TE { e: RExpr { k: RK::Inside(Box::new(x), items), w: 1, signed: false }, ty: None })
            }
            Expr::Pattern { ty: Some(t), items } => {
                let ty = self.expr_as_type(t, scope)?;
                let e = self.elab_pattern(items, &ty, scope)?;
                Ok(TE { e, ty: Some(ty) })
            }
            Expr::Pattern { ty: None, .. } => Err(SvError::Unsupported("assignment pattern without a type context".into())),
            Expr::Type(_) => Err(SvError::Elab("type used as a value".into())),
        }
    }

    pub(crate) fn elab_inside_items(&mut self, items: &[InsideItem], scope: usize) -> R<Vec<RInside>> {
        let mut out = vec![];
        for it in items {
            match it {
                InsideItem::Value(v) => out.push(RInside::Value(self.elab_expr(v, scope)?.e)),
                InsideItem::Range(a, b) => {
                    let a = self.elab_expr(a, scope)?.e;
                    let b = self.elab_expr(b, scope)?.e;
                    out.push(RInside::Range(a, b));
                }
            }
        }
        Ok(out)
    }

    /// dimensions of a reference for $size & co: unpacked then packed; a dimensionless struct/enum
    /// or an integer type counts as a single `[w-1:0]` dimension
    fn dims_of(ty: &Ty) -> Vec<Range> {
        let mut d: Vec<Range> = ty.unpacked.clone();
        d.extend(ty.packed.iter().cloned());
        if ty.packed.is_empty() {
            let w = ty.base_width();
            if w > 1 || !matches!(ty.kind, TyKind::Bits) {
                d.push((w as i64 - 1, 0));
            }
        }
        d
    }

    fn type_of_arg(&mut self, e: &Expr, scope: usize) -> R<Ty> {
        if self.is_type_expr(e, scope)? {
            return self.expr_as_type(e, scope);
        }
        match e {
            Expr::Ident { .. } | Expr::Member(..) | Expr::Index(..) | Expr::Range(..) | Expr::IndexedRange(..) => {
                if let Resolved::Acc(acc) = self.resolve_ref(e, scope)? {
                    return Ok(acc.ty);
                }
                Err(SvError::Elab("expected a value or a type".into()))
            }
            _ => {
                let te = self.elab_expr(e, scope)?;
                Ok(te.ty.unwrap_or_else(|| Ty::bits(te.e.w, te.e.signed, false)))
            }
        }
    }

    fn elab_syscall(&mut self, name: &str, args: &[Expr], scope: usize) -> R<TE> {
        let int_const = |i: i64| TE { e: const_int(i), ty: None };
        let need = |n: usize| -> R<()> {
            if args.len() != n { Err(SvError::Elab(format!("{name} expects {n} argument(s)"))) } else { Ok(()) }
        };
        match name {
            "$clog2" => {
                need(1)?;
                let a = self.elab_expr(&args[0], scope)?.e;
                Ok(TE { e: RExpr { k: RK::Clog2(Box::new(a)), w: 32, signed: true }, ty: None })
            }
            "$bits" => {
                need(1)?;
                let ty = self.type_of_arg(&args[0], scope)?;
                Ok(int_const((ty.packed_width() * ty.elem_count()) as i64))
            }
            "$size" | "$left" | "$right" | "$high" | "$low" | "$increment" => {
                if args.is_empty() || args.len() > 2 {
                    return Err(SvError::Elab(format!("{name} expects 1 or 2 arguments")));
                }
                let ty = self.type_of_arg(&args[0], scope)?;
                let d = if args.len() == 2 { self.const_i64(&args[1], scope)? } else { 1 };
                let dims = Self::dims_of(&ty);
                if d < 1 || d as usize > dims.len() {
                    return Err(SvError::Elab(format!("{name}: dimension {d} does not exist")));
                }
                let r = dims[d as usize - 1];
                Ok(int_const(match name {
                    "$size" => range_len(r) as i64,
                    "$left" => r.0,
                    "$right" => r.1,
                    "$high" => r.0.max(r.1),
                    "$low" => r.0.min(r.1),
                    _ => {
                        if r.0 >= r.1 { 1 } else { -1 }
                    }
                }))
            }
            "$dimensions" | "$unpacked_dimensions" => {
                need(1)?;
                let ty = self.type_of_arg(&args[0], scope)?;
                Ok(int_const(if name == "$dimensions" { Self::dims_of(&ty).len() } else { ty.unpacked.len() } as i64))
            }
            "$signed" | "$unsigned" => {
                need(1)?;
                let x = self.elab_expr(&args[0], scope)?.e;
                let w = x.w;
                Ok(TE { e: RExpr { k: RK::SignCast(Box::new(x)), w, signed: name == "$signed" }, ty: None })
            }
            "$countones" => {
                need(1)?;
                let x = self.elab_expr(&args[0], scope)?.e;
                Ok(TE { e: RExpr { k: RK::CountOnes(Box::new(x)), w: 32, signed: true }, ty: None })
            }
            "$onehot" | "$onehot0" => {
                need(1)?;
                let x = self.elab_expr(&args[0], scope)?.e;
                Ok(TE { e: RExpr { k: RK::OneHot(Box::new(x), name == "$onehot0"), w: 1, signed: false }, ty: None })
            }
            "$isunknown" => {
                need(1)?;
                let x = self.elab_expr(&args[0], scope)?.e;
                Ok(TE { e: RExpr { k: RK::IsUnknown(Box::new(x)), w: 1, signed: false }, ty: None })
            }
            _ => Err(SvError::Unsupported(format!("system function {name}"))),
        }
    }
}

use super::*;
use crate::bits::V;

fn u(v: u128, w: usize) -> V {
    V::from_u128(v, w, false)
}

fn comb1(body: &str, ins: &[(&str, usize)], outs: &[(&str, &str)]) -> Design {
    let mut src = String::from("module t (\n");
    let mut ports = vec![];
    for (n, w) in ins {
        ports.push(format!("  input var logic [{}-1:0] {}", w, n));
    }
    for (n, decl) in outs {
        ports.push(format!("  output var {} {}", decl, n));
    }
    src.push_str(&ports.join(",\n"));
    src.push_str("\n);\n");
    src.push_str(body);
    src.push_str("\nendmodule\n");
    Design::elaborate(&[src], "t").unwrap()
}

#[test]
fn context_width_and_sign() {
    // (a + b) >> 1 assigned to 5 bits: the addition is carried out at 5 bits (11.6.2 example)
    let mut d = comb1(
        "always_comb y = (a + b) >> 1;\n always_comb z = (a + b + 5'd0) >> 1; always_comb s = $signed(a) >>> 1; always_comb m = $signed(a) + b;",
        &[("a", 4), ("b", 4)],
        &[("y", "logic [4:0]"), ("z", "logic [3:0]"), ("s", "logic [7:0]"), ("m", "logic [7:0]")],
    );
    d.set("a", &u(15, 4)).unwrap();
    d.set("b", &u(1, 4)).unwrap();
    d.settle().unwrap();
    assert_eq!(d.get("y").unwrap().to_u128(), Some(8));
    assert_eq!(d.get("z").unwrap().to_u128(), Some(8));
    // signed operand sign-extended to 8 bits before the arithmetic shift
    assert_eq!(d.get("s").unwrap().to_u128(), Some(0xff));
    // mixed signedness: everything unsigned => zero extension
    assert_eq!(d.get("m").unwrap().to_u128(), Some(16));
}

#[test]
fn ff_reset_and_edges() {
    let src = r#"
module t (
    input var logic clk,
    input var logic rst_n,
    input var logic [1:0] d,
    output var logic [1:0] q,
    output var logic [1:0] c
);
    always_ff @ (posedge clk, negedge rst_n) begin
        if (!rst_n) begin
            q <= 0;
            c <= 0;
        end else begin
            q <= d;
            c <= c + 1;
        end
    end
endmodule
"#;
    let mut m = Design::elaborate(&[src.to_string()], "t").unwrap();
    m.set("clk", &u(0, 1)).unwrap();
    m.set("rst_n", &u(1, 1)).unwrap();
    m.set("d", &u(2, 2)).unwrap();
    m.settle().unwrap();
    assert!(m.get("q").unwrap().has_xz());
    m.set("rst_n", &u(0, 1)).unwrap();
    m.settle().unwrap();
    assert_eq!(m.get("q").unwrap().to_u128(), Some(0));
    m.set("rst_n", &u(1, 1)).unwrap();
    m.settle().unwrap();
    for i in 1..=5u128 {
        m.set("clk", &u(1, 1)).unwrap();
        m.settle().unwrap();
        assert_eq!(m.get("q").unwrap().to_u128(), Some(2));
        assert_eq!(m.get("c").unwrap().to_u128(), Some(i & 3));
        m.set("clk", &u(0, 1)).unwrap();
        m.settle().unwrap();
        assert_eq!(m.get("c").unwrap().to_u128(), Some(i & 3));
    }
}

#[test]
fn nba_swap_reads_old_values() {
    let src = r#"
module t (input var logic clk, input var logic ld, input var logic [1:0] d, output var logic [1:0] a, output var logic [1:0] b);
    always_ff @ (posedge clk) begin
        if (ld) begin a <= d; b <= ~d; end
        else begin a <= b; b <= a; end
    end
endmodule
"#;
    let mut m = Design::elaborate(&[src.to_string()], "t").unwrap();
    let tick = |m: &mut Design, ld: u128, d: u128| {
        m.set("ld", &u(ld, 1)).unwrap();
        m.set("d", &u(d, 2)).unwrap();
        m.set("clk", &u(0, 1)).unwrap();
        m.settle().unwrap();
        m.set("clk", &u(1, 1)).unwrap();
        m.settle().unwrap();
    };
    tick(&mut m, 1, 1);
    assert_eq!(m.get("a").unwrap().to_u128(), Some(1));
    assert_eq!(m.get("b").unwrap().to_u128(), Some(2));
    tick(&mut m, 0, 0);
    assert_eq!(m.get("a").unwrap().to_u128(), Some(2));
    assert_eq!(m.get("b").unwrap().to_u128(), Some(1));
}

#[test]
fn struct_enum_case_function() {
    let src = r#"
package p;
    localparam int unsigned W = 2;
    typedef enum logic [W-1:0] { A_X, A_Y = 2'd2, A_Z } A;
    typedef struct packed { logic [1:0] hi; logic lo; } S;
    function automatic logic [2:0] inc(input var logic [2:0] v);
        return v + 1;
    endfunction
endpackage
module t (input var logic [2:0] a, output var logic [2:0] y, output var logic [1:0] e, output var logic [2:0] f);
    import p::*;
    S s;
    A st;
    always_comb begin
        s = S'{hi: a[1:0], lo: a[2]};
        case (a) inside
            0, 1: st = A_X;
            [2:3]: st = A_Y;
            default: st = A_Z;
        endcase
    end
    always_comb y = {s.lo, s.hi};
    always_comb e = st;
    always_comb f = p::inc(a);
endmodule
"#;
    let mut m = Design::elaborate(&[src.to_string()], "t").unwrap();
    for a in 0..8u128 {
        m.set("a", &u(a, 3)).unwrap();
        m.settle().unwrap();
        let exp_y = ((a >> 2) & 1) << 2 | (a & 3);
        assert_eq!(m.get("y").unwrap().to_u128(), Some(exp_y), "a={a}");
        let exp_e = if a < 2 { 0 } else if a < 4 { 2 } else { 3 };
        assert_eq!(m.get("e").unwrap().to_u128(), Some(exp_e));
        assert_eq!(m.get("f").unwrap().to_u128(), Some((a + 1) & 7));
    }
}

#[test]
fn generate_instance_array() {
    let src = r#"
module sub #(parameter int unsigned K = 1) (input var logic [3:0] i, output var logic [3:0] o);
    always_comb o = i + K;
endmodule
module t (input var logic [3:0] a, output var logic [3:0] y, output var logic [3:0] z);
    logic [3:0] w [3];
    always_comb w[0] = a;
    for (genvar g = 0; g < 2; g++) begin :gen
        sub #(.K(g + 1)) u (.i(w[g]), .o(w[g+1]));
    end
    always_comb y = w[2];
    if (1) begin :blk
        logic [3:0] t;
        always_comb t = ~a;
    end
    always_comb z = blk.t;
endmodule
"#;
    let mut m = Design::elaborate(&[src.to_string()], "t").unwrap();
    for a in 0..16u128 {
        m.set("a", &u(a, 4)).unwrap();
        m.settle().unwrap();
        assert_eq!(m.get("y").unwrap().to_u128(), Some((a + 3) & 15));
        assert_eq!(m.get("z").unwrap().to_u128(), Some(!a & 15));
    }
}

#[test]
fn unpacked_array_parameter() {
    let src = r#"
module t (input var logic [1:0] a, output var logic [1:0] y, output var logic [1:0] z);
    localparam logic [2-1:0] T [0:3-1] = '{2'd2, 2'd1, 2'd3};
    localparam logic [1:0] U [2][2] = '{'{2'd0, 2'd1}, '{2'd2, 2'd3}};
    always_comb y = T[a];
    always_comb z = U[a[1]][a[0]];
endmodule
"#;
    let mut m = Design::elaborate(&[src.to_string()], "t").unwrap();
    let exp = [2u128, 1, 3];
    for a in 0..4u128 {
        m.set("a", &u(a, 2)).unwrap();
        m.settle().unwrap();
        if a < 3 {
            assert_eq!(m.get("y").unwrap().to_u128(), Some(exp[a as usize]));
        } else {
            assert!(m.get("y").unwrap().has_xz());
        }
        assert_eq!(m.get("z").unwrap().to_u128(), Some(a));
    }
}

#[test]
fn unsupported_is_reported() {
    let src = "module t; initial begin $display(\"x\"); end endmodule";
    assert!(matches!(Design::elaborate(&[src.to_string()], "t"), Err(SvError::Unsupported(_))));
    let src = "module t; real r; endmodule";
    assert!(matches!(Design::elaborate(&[src.to_string()], "t"), Err(SvError::Unsupported(_))));
}

/// Self-test over the repository's committed SV snapshots: every file must lex+parse (or answer
/// `Unsupported`), and every module must elaborate or answer `Unsupported`. Prints a census.
/// Directory from env `SVREF_TESTCASES` (default /repo/testcases/sv).
#[test]
fn selftest_repo_testcases() {
    use super::ast::{Unit, UnitKind};
    use super::elab::elaborate;
    use super::parse::parse_source;
    let dir = std::env::var("SVREF_TESTCASES").unwrap_or_else(|_| "/repo/testcases/sv".to_string());
    let Ok(rd) = std::fs::read_dir(&dir) else {
        eprintln!("selftest: {dir} not present, skipped");
        return;
    };
    let mut files: Vec<_> = rd.filter_map(|e| e.ok()).map(|e| e.path()).filter(|p| p.extension().map(|x| x == "sv").unwrap_or(false)).collect();
    files.sort();
    let mut parsed: Vec<(String, Vec<Unit>)> = vec![];
    let mut parse_unsupported = vec![];
    let mut parse_errors = vec![];
    for f in &files {
        let name = f.file_name().unwrap().to_string_lossy().to_string();
        let text = std::fs::read_to_string(f).unwrap();
        match parse_source(&text) {
            Ok(u) => parsed.push((name, u)),
            Err(SvError::Unsupported(s)) => parse_unsupported.push((name, s)),
            Err(e) => parse_errors.push((name, e.to_string())),
        }
    }
    let mut ok = 0usize;
    let mut unsup: Vec<(String, String)> = vec![];
    let mut bad: Vec<(String, String)> = vec![];
    let mut settled = 0usize;
    for (fname, units) in &parsed {
        for top in units.iter().filter(|u| u.kind == UnitKind::Module) {
            // library: this file's units first, then every other file's units with new names
            let mut lib: Vec<Unit> = units.clone();
            for (_, other) in &parsed {
                for u in other {
                    if !lib.iter().any(|x| x.name == u.name) {
                        lib.push(u.clone());
                    }
                }
            }
            let tag = format!("{fname}:{}", top.name);
            match elaborate(lib, &top.name) {
                Ok(_) => {
                    ok += 1;
                    // also run the time-0 settle with all inputs at 0
                    let text = std::fs::read_to_string(format!("{dir}/{fname}")).unwrap();
                    let mut texts = vec![text];
                    for (of, _) in &parsed {
                        if of != fname {
                            texts.push(std::fs::read_to_string(format!("{dir}/{of}")).unwrap());
                        }
                    }
                    // duplicates across files make the combined text unusable; only own file then
                    let d = Design::elaborate(&texts[..1].to_vec(), &top.name);
                    if let Ok(mut d) = d {
                        let ins: Vec<_> = d.ports().iter().filter(|p| p.dir == PortDir::Input).map(|p| (p.name.clone(), p.width)).collect();
                        for (n, w) in ins {
                            d.set(&n, &V::zeros(w, false)).unwrap();
                        }
                        match d.settle() {
                            Ok(()) => settled += 1,
                            Err(SvError::Unsupported(_)) => {}
                            Err(e) => bad.push((tag.clone(), format!("settle: {e}"))),
                        }
                    }
                }
                Err(SvError::Unsupported(s)) => unsup.push((tag, s)),
                // 58_generic_struct uses `C` before its typedef (not legal SV; a standard tool rejects it too)
                Err(SvError::Elab(s)) if fname == "58_generic_struct.sv" && s == "unknown type C" => unsup.push((tag, s)),
                Err(e) => bad.push((tag, e.to_string())),
            }
        }
    }
    eprintln!("selftest: files={} parsed={} parse_unsupported={} parse_errors={}", files.len(), parsed.len(), parse_unsupported.len(), parse_errors.len());
    for (n, s) in &parse_unsupported {
        eprintln!("  parse-unsupported {n}: {s}");
    }
    for (n, s) in &parse_errors {
        eprintln!("  PARSE-ERROR {n}: {s}");
    }
    eprintln!("selftest: modules elaborated={ok} settled={settled} unsupported={} errors={}", unsup.len(), bad.len());
    for (n, s) in &unsup {
        eprintln!("  unsupported {n}: {s}");
    }
    for (n, s) in &bad {
        eprintln!("  ERROR {n}: {s}");
    }
    assert!(parse_errors.is_empty(), "files that R2 neither parses nor declares unsupported");
    assert!(bad.is_empty(), "modules that R2 neither elaborates nor declares unsupported");
    assert!(ok >= 40, "too few modules elaborated: {ok}");
}

/// Development aid: `SVREF_FILE=<path> SVREF_TOP=<module> cargo test -p vmc-refmodels probe_file -- --nocapture`
#[test]
fn probe_file() {
    let (Ok(f), Ok(top)) = (std::env::var("SVREF_FILE"), std::env::var("SVREF_TOP")) else { return };
    let text = std::fs::read_to_string(&f).unwrap();
    match Design::elaborate(&[text], &top) {
        Ok(d) => {
            for p in d.ports() {
                eprintln!("port {:?} {} [{}]", p.dir, p.name, p.width);
            }
            eprintln!("vars: {:?}", d.var_names());
        }
        Err(e) => eprintln!("ERROR: {e}"),
    }
}

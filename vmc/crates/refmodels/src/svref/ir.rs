//! R2 elaborated (resolved) representation: types, expressions with their self-determined type,
//! statements, processes.

use crate::bits::{Bit, V};
use std::rc::Rc;

#[derive(Clone, Debug, PartialEq)]
pub enum TyKind {
    Bits,
    Struct(Rc<StructDef>),
    Enum(Rc<EnumDef>),
}

#[derive(Clone, Debug, PartialEq)]
pub struct StructDef {
    pub union: bool,
    /// declaration order = MSB first
    pub fields: Vec<(String, Ty)>,
    pub width: usize,
}

#[derive(Clone, Debug, PartialEq)]
pub struct EnumDef {
    pub width: usize,
    pub signed: bool,
    pub two_state: bool,
    pub members: Vec<(String, V)>,
}

/// `[l:r]` as written; `[n]` is stored as `[0:n-1]`.
pub type Range = (i64, i64);

pub fn range_len(r: Range) -> usize {
    ((r.0 - r.1).unsigned_abs() + 1) as usize
}
/// position of index `i` counted from the right bound (the LSB side / last element side)
pub fn pos_from_right(r: Range, i: i64) -> Option<usize> {
    let (lo, hi) = if r.0 <= r.1 { (r.0, r.1) } else { (r.1, r.0) };
    if i < lo || i > hi {
        return None;
    }
    Some((i - r.1).unsigned_abs() as usize)
}
/// position of index `i` counted from the left bound
pub fn pos_from_left(r: Range, i: i64) -> Option<usize> {
    let (lo, hi) = if r.0 <= r.1 { (r.0, r.1) } else { (r.1, r.0) };
    if i < lo || i > hi {
        return None;
    }
    Some((i - r.0).unsigned_abs() as usize)
}

#[derive(Clone, Debug, PartialEq)]
pub struct Ty {
    pub kind: TyKind,
    pub signed: bool,
    pub two_state: bool,
    /// outermost first
    pub packed: Vec<Range>,
    /// outermost first
    pub unpacked: Vec<Range>,
    pub void: bool,
}

impl Ty {
    pub fn bits(w: usize, signed: bool, two_state: bool) -> Ty {
        Ty {
            kind: TyKind::Bits,
            signed,
            two_state,
            packed: if w == 1 { vec![] } else { vec![(w as i64 - 1, 0)] },
            unpacked: vec![],
            void: false,
        }
    }
    pub fn int() -> Ty {
        Ty { kind: TyKind::Bits, signed: true, two_state: true, packed: vec![(31, 0)], unpacked: vec![], void: false }
    }
    pub fn base_width(&self) -> usize {
        match &self.kind {
            TyKind::Bits => 1,
            TyKind::Struct(s) => s.width,
            TyKind::Enum(e) => e.width,
        }
    }
    /// width of one unpacked element (the packed part)
    pub fn packed_width(&self) -> usize {
        self.packed.iter().map(|r| range_len(*r)).product::<usize>() * self.base_width()
    }
    pub fn elem_count(&self) -> usize {
        self.unpacked.iter().map(|r| range_len(*r)).product::<usize>()
    }
    pub fn is_signed(&self) -> bool {
        match &self.kind {
            TyKind::Bits => self.signed,
            TyKind::Struct(_) => self.signed && self.packed.is_empty(),
            TyKind::Enum(e) => e.signed && self.packed.is_empty(),
        }
    }
    /// per-bit (LSB first) flag "this bit is of a 2-state type", None when no bit is
    pub fn two_state_mask(&self) -> Option<Rc<Vec<bool>>> {
        let m = self.mask_inner();
        if m.iter().any(|b| *b) { Some(Rc::new(m)) } else { None }
    }
    fn mask_inner(&self) -> Vec<bool> {
        let base: Vec<bool> = match &self.kind {
            TyKind::Bits => vec![self.two_state],
            TyKind::Enum(e) => vec![e.two_state; e.width],
            TyKind::Struct(s) => {
                if s.union {
                    // a bit is 2-state only when it is in every member
                    let mut m = vec![true; s.width];
                    for (_, t) in &s.fields {
                        let fm = t.mask_inner();
                        for (i, b) in m.iter_mut().enumerate() {
                            *b = *b && fm.get(i).copied().unwrap_or(false);
                        }
                    }
                    m
                } else {
                    let mut m = vec![];
                    for (_, t) in s.fields.iter().rev() {
                        m.extend(t.mask_inner());
                    }
                    m
                }
            }
        };
        let n: usize = self.packed.iter().map(|r| range_len(*r)).product();
        let mut out = Vec::with_capacity(base.len() * n);
        for _ in 0..n {
            out.extend_from_slice(&base);
        }
        out
    }
    pub fn elem_ty(&self) -> Ty {
        let mut t = self.clone();
        t.unpacked.clear();
        t
    }
}

#[derive(Clone, Copy, Debug, PartialEq, Eq, Hash, PartialOrd, Ord)]
pub enum Loc {
    Global(usize),
    Local(usize),
}

#[derive(Clone, Debug)]
pub enum Sel {
    /// index into a packed dimension whose elements are `ew` bits wide
    Bit { idx: Box<RExpr>, dim: Range, ew: usize },
    /// constant `[a:b]` over a packed dimension
    Part { a: i64, b: i64, dim: Range, ew: usize },
    /// `[base +: n]` / `[base -: n]`
    Indexed { base: Box<RExpr>, n: usize, up: bool, dim: Range, ew: usize },
    /// struct/union member at bit offset `off` (from the LSB) of width `w`
    Field { off: usize, w: usize },
}

/// Reference to (part of) a variable.
#[derive(Clone, Debug)]
pub struct LRef {
    pub loc: Loc,
    /// unpacked indices, outermost first, with the dimension they index
    pub elem: Vec<(RExpr, Range)>,
    /// strides of the unpacked dimensions (same length as the variable's unpacked dims)
    pub strides: Vec<usize>,
    pub sels: Vec<Sel>,
    /// packed width of the variable element (before sels)
    pub base_w: usize,
    /// resulting width
    pub w: usize,
}

#[derive(Clone, Debug)]
pub enum LVal {
    Ref(LRef),
    /// `{a, b}` — MSB first
    Concat(Vec<LVal>),
}

impl LVal {
    pub fn width(&self) -> usize {
        match self {
            LVal::Ref(r) => r.w,
            LVal::Concat(v) => v.iter().map(|x| x.width()).sum(),
        }
    }
}

#[derive(Clone, Copy, Debug, PartialEq, Eq)]
pub enum UnOp {
    Plus,
    Neg,
    Not,
    LogNot,
    RedAnd,
    RedOr,
    RedXor,
    RedNand,
    RedNor,
    RedXnor,
}

#[derive(Clone, Copy, Debug, PartialEq, Eq)]
pub enum BinOp {
    Add,
    Sub,
    Mul,
    Div,
    Mod,
    Pow,
    And,
    Or,
    Xor,
    Xnor,
    Shl,
    Shr,
    AShl,
    AShr,
    Lt,
    Le,
    Gt,
    Ge,
    Eq,
    Ne,
    CaseEq,
    CaseNe,
    WildEq,
    WildNe,
    LogAnd,
    LogOr,
}

#[derive(Clone, Debug)]
pub enum RInside {
    Value(RExpr),
    Range(RExpr, RExpr),
}

#[derive(Clone, Debug)]
pub enum RK {
    Const(V),
    Unbased(Bit),
    Read(LRef),
    /// selection applied to the value of an expression (parameters, function results)
    Select { base: Box<RExpr>, sels: Vec<Sel> },
    Unary(UnOp, Box<RExpr>),
    Binary(BinOp, Box<RExpr>, Box<RExpr>),
    Cond(Box<RExpr>, Box<RExpr>, Box<RExpr>),
    Concat(Vec<RExpr>),
    Repl(usize, Box<RExpr>),
    /// value as if assigned to a vector of the node's width (size cast, pattern member, argument):
    /// the inner expression is evaluated at max(width, inner width) and truncated. `mask2`:
    /// bits of a 2-state target (x/z become 0).
    AssignCast { inner: Box<RExpr>, mask2: Option<Rc<Vec<bool>>> },
    /// change of signedness only
    SignCast(Box<RExpr>),
    Call { func: usize, args: Vec<RExpr>, outs: Vec<(usize, LVal)> },
    Inside(Box<RExpr>, Vec<RInside>),
    Clog2(Box<RExpr>),
    CountOnes(Box<RExpr>),
    OneHot(Box<RExpr>, bool),
    IsUnknown(Box<RExpr>),
}

#[derive(Clone, Debug)]
pub struct RExpr {
    pub k: RK,
    /// self-determined width
    pub w: usize,
    /// self-determined signedness
    pub signed: bool,
}

#[derive(Clone, Debug)]
pub enum RStmt {
    Block(Vec<RStmt>),
    /// evaluate all right-hand sides (each in assignment context to its target), then store
    Assign { pairs: Vec<(LVal, RExpr)>, nb: bool },
    If(RExpr, Box<RStmt>, Option<Box<RStmt>>),
    Case { kind: super::ast::CaseKind, expr: RExpr, items: Vec<(Vec<RInside>, RStmt)>, default: Option<Box<RStmt>>, cw: usize, cs: bool },
    For { init: Box<RStmt>, cond: RExpr, step: Box<RStmt>, body: Box<RStmt> },
    Break,
    Return,
    Eval(RExpr),
    /// (re)initialise an automatic local to its default value
    InitLocal(usize),
    Null,
}

#[derive(Clone, Debug)]
pub struct SlotInfo {
    pub name: String,
    pub w: usize,
    pub elems: usize,
    pub mask2: Option<Rc<Vec<bool>>>,
}

impl SlotInfo {
    pub fn default_elem(&self) -> V {
        let mut v = V::all(self.w, Bit::X, false);
        if let Some(m) = &self.mask2 {
            for (i, b) in v.bits.iter_mut().enumerate() {
                if m[i] {
                    *b = Bit::Zero;
                }
            }
        }
        v
    }
}

#[derive(Clone, Debug)]
pub struct RFunc {
    pub name: String,
    pub slots: Vec<SlotInfo>,
    /// input formals: slot index (in call order, matching `RK::Call::args`)
    pub inputs: Vec<usize>,
    pub ret: Option<usize>,
    pub body: RStmt,
}

#[derive(Clone, Debug)]
pub struct EdgeSpec {
    pub posedge: bool,
    pub signal: RExpr,
}

#[derive(Clone, Debug)]
pub enum Proc {
    Comb { name: String, body: RStmt, reads: Vec<usize> },
    Ff { name: String, edges: Vec<EdgeSpec>, body: RStmt },
}

#[derive(Clone, Copy, Debug, PartialEq, Eq)]
pub enum PortDir {
    Input,
    Output,
}

#[derive(Clone, Debug)]
pub struct PortInfo {
    pub name: String,
    pub dir: PortDir,
    pub var: usize,
    pub width: usize,
    pub signed: bool,
}

//! R2 simulator: event model over the elaborated design.
//!
//! * every variable starts as x (2-state typed bits as 0);
//! * the testbench drives top-level input ports with `set`, then calls `settle`;
//! * `settle` runs combinational processes (`assign`, `always_comb`, port connections) to a
//!   fix-point, then looks for edges on the signals named in `always_ff` event lists (compared with
//!   the value seen at the previous fix-point); every process with a matching edge runs reading the
//!   pre-update values, all non-blocking assignments are applied together, and the loop repeats
//!   until no edge is left.

use super::SvError;
use super::elab::{Elab, elaborate};
use super::eval::{Exec, Target};
use super::ir::*;
use super::parse::parse_source;
use crate::bits::{Bit, V};
use std::rc::Rc;

type R<T> = Result<T, SvError>;

const COMB_EVAL_CAP_BASE: usize = 10_000;
const EVENT_ROUND_CAP: usize = 1_000;

struct Static {
    infos: Vec<SlotInfo>,
    funcs: Vec<Option<Rc<RFunc>>>,
    procs: Vec<Proc>,
    ports: Vec<PortInfo>,
    /// var -> comb processes reading it
    readers: Vec<Vec<usize>>,
    comb_ids: Vec<usize>,
    ff_ids: Vec<usize>,
}

pub struct Design {
    st: Rc<Static>,
    /// variable values: [var][element]
    vals: Vec<Vec<V>>,
    /// last sampled value of every edge expression: [ff index][edge index]
    samples: Vec<Vec<Bit>>,
    dirty: Vec<bool>,
    /// verify every fix-point with a full extra pass (cheap for the design sizes used here)
    pub paranoid: bool,
    pub stats_comb_evals: u64,
    pub stats_ff_fires: u64,
}

/// A cheap copy of the dynamic state.
#[derive(Clone)]
pub struct Snapshot {
    vals: Vec<Vec<V>>,
    samples: Vec<Vec<Bit>>,
    dirty: Vec<bool>,
}

impl Design {
    pub fn elaborate(sv_texts: &[String], top: &str) -> R<Design> {
        let mut units = vec![];
        for t in sv_texts {
            units.extend(parse_source(t)?);
        }
        let e: Elab = elaborate(units, top)?;
        Ok(Design::from_elab(e))
    }

    fn from_elab(e: Elab) -> Design {
        let nvars = e.infos.len();
        let mut readers: Vec<Vec<usize>> = vec![vec![]; nvars];
        let mut comb_ids = vec![];
        let mut ff_ids = vec![];
        for (i, p) in e.procs.iter().enumerate() {
            match p {
                Proc::Comb { reads, .. } => {
                    comb_ids.push(i);
                    for r in reads {
                        readers[*r].push(i);
                    }
                }
                Proc::Ff { .. } => ff_ids.push(i),
            }
        }
        let vals: Vec<Vec<V>> = e.infos.iter().map(|s| vec![s.default_elem(); s.elems]).collect();
        let samples = ff_ids
            .iter()
            .map(|&i| match &e.procs[i] {
                Proc::Ff { edges, .. } => vec![Bit::X; edges.len()],
                _ => vec![],
            })
            .collect();
        let nprocs = e.procs.len();
        let st = Static { infos: e.infos, funcs: e.funcs, procs: e.procs, ports: e.ports, readers, comb_ids, ff_ids };
        Design {
            st: Rc::new(st),
            vals,
            samples,
            // every combinational process runs once at time 0
            dirty: vec![true; nprocs],
            paranoid: true,
            stats_comb_evals: 0,
            stats_ff_fires: 0,
        }
    }

    pub fn ports(&self) -> &[PortInfo] {
        &self.st.ports
    }

    pub fn snapshot(&self) -> Snapshot {
        Snapshot { vals: self.vals.clone(), samples: self.samples.clone(), dirty: self.dirty.clone() }
    }
    pub fn restore(&mut self, s: &Snapshot) {
        self.vals = s.vals.clone();
        self.samples = s.samples.clone();
        self.dirty = s.dirty.clone();
    }

    fn port(&self, name: &str) -> R<&PortInfo> {
        self.st.ports.iter().find(|p| p.name == name).ok_or_else(|| SvError::Runtime(format!("no port {name}")))
    }

    /// Drives an input port (takes effect at the next `settle`).
    pub fn set(&mut self, port: &str, v: &V) -> R<()> {
        let p = self.port(port)?.clone();
        if p.dir != PortDir::Input {
            return Err(SvError::Runtime(format!("{port} is not an input")));
        }
        let mut nv = v.resize(p.width.max(v.width()));
        nv.bits.truncate(p.width);
        nv.signed = false;
        if let Some(m) = &self.st.infos[p.var].mask2 {
            for (i, b) in nv.bits.iter_mut().enumerate() {
                if m[i] && b.is_xz() {
                    *b = Bit::Zero;
                }
            }
        }
        if self.vals[p.var][0].bits != nv.bits {
            self.vals[p.var][0] = nv;
            for &r in &self.st.readers[p.var] {
                self.dirty[r] = true;
            }
        }
        Ok(())
    }

    pub fn get(&self, port: &str) -> R<V> {
        let p = self.port(port)?;
        let mut v = self.vals[p.var][0].clone();
        v.signed = p.signed;
        Ok(v)
    }

    pub fn var_names(&self) -> Vec<String> {
        self.st.infos.iter().map(|i| i.name.clone()).collect()
    }

    /// value of a variable by hierarchical name (all elements, first element for scalars)
    pub fn get_var(&self, name: &str) -> Option<Vec<V>> {
        self.st.infos.iter().position(|i| i.name == name).map(|i| self.vals[i].clone())
    }

    /// canonical encoding of the whole dynamic state (variables and edge samples)
    pub fn state_key(&self) -> Vec<u8> {
        let mut out = vec![];
        for var in &self.vals {
            for e in var {
                for b in &e.bits {
                    out.push(b.to_char() as u8);
                }
                out.push(b'|');
            }
        }
        out.push(b'#');
        for s in &self.samples {
            for b in s {
                out.push(b.to_char() as u8);
            }
        }
        out
    }

    fn mark_changed(&mut self, touched: &[(usize, usize, V)], by: Option<usize>) -> bool {
        let mut any = false;
        for (g, e, old) in touched {
            if self.vals[*g][*e].bits != old.bits {
                any = true;
                for &r in &self.st.readers[*g] {
                    // a process is not sensitive to what it writes itself
                    if Some(r) != by {
                        self.dirty[r] = true;
                    }
                }
            }
        }
        any
    }

    fn run_comb(&mut self, pid: usize) -> R<bool> {
        let st = self.st.clone();
        let Proc::Comb { body, .. } = &st.procs[pid] else { unreachable!() };
        let mut ex = Exec::new(&st.funcs, &st.infos, &mut self.vals, false);
        ex.exec(body)?;
        if !ex.nba.is_empty() {
            return Err(SvError::Unsupported("non-blocking assignment in a combinational process".into()));
        }
        let touched = std::mem::take(&mut ex.touched);
        drop(ex);
        self.stats_comb_evals += 1;
        Ok(self.mark_changed(&touched, Some(pid)))
    }

    fn settle_comb(&mut self) -> R<()> {
        let st = self.st.clone();
        let cap = COMB_EVAL_CAP_BASE + 100 * st.comb_ids.len();
        let mut evals = 0usize;
        loop {
            let mut ran = false;
            for &pid in &st.comb_ids {
                if self.dirty[pid] {
                    self.dirty[pid] = false;
                    self.run_comb(pid)?;
                    ran = true;
                    evals += 1;
                    if evals > cap {
                        return Err(SvError::Oscillation(format!("combinational logic did not settle after {cap} process evaluations")));
                    }
                }
            }
            if !ran {
                break;
            }
        }
        if self.paranoid {
            // the fix-point must be stable under re-evaluation of every process
            for &pid in &st.comb_ids {
                if self.run_comb(pid)? {
                    let name = match &st.procs[pid] {
                        Proc::Comb { name, .. } => name.clone(),
                        _ => String::new(),
                    };
                    return Err(SvError::Runtime(format!("internal: fix-point not stable (process {name}); read set incomplete?")));
                }
            }
            for &pid in &st.comb_ids {
                self.dirty[pid] = false;
            }
        }
        Ok(())
    }

    /// Brings the design to rest: combinational fix-point, edge-triggered processes, repeat.
    pub fn settle(&mut self) -> R<()> {
        let st = self.st.clone();
        for _round in 0..EVENT_ROUND_CAP {
            self.settle_comb()?;
            // edge detection against the previous fix-point
            let mut fired: Vec<usize> = vec![];
            for (k, &pid) in st.ff_ids.iter().enumerate() {
                let Proc::Ff { edges, .. } = &st.procs[pid] else { unreachable!() };
                let mut fire = false;
                for (j, e) in edges.iter().enumerate() {
                    let mut ex = Exec::new(&st.funcs, &st.infos, &mut self.vals, false);
                    let v = ex.eval_self(&e.signal)?;
                    drop(ex);
                    let cur = v.bits.first().copied().unwrap_or(Bit::X);
                    let prev = self.samples[k][j];
                    self.samples[k][j] = cur;
                    if is_edge(prev, cur, e.posedge) {
                        fire = true;
                    }
                }
                if fire {
                    fired.push(pid);
                }
            }
            if fired.is_empty() {
                return Ok(());
            }
            // all fired processes read pre-update values; NBAs are applied together afterwards
            let mut nba: Vec<(Target, V)> = vec![];
            let mut touched_all: Vec<(usize, usize, V)> = vec![];
            for pid in fired {
                let Proc::Ff { body, .. } = &st.procs[pid] else { unreachable!() };
                let mut ex = Exec::new(&st.funcs, &st.infos, &mut self.vals, false);
                ex.exec(body)?;
                nba.append(&mut ex.nba);
                // blocking writes (process-local statics) take effect immediately
                touched_all.append(&mut ex.touched);
                drop(ex);
                self.stats_ff_fires += 1;
            }
            {
                let mut ex = Exec::new(&st.funcs, &st.infos, &mut self.vals, false);
                for (t, v) in &nba {
                    ex.write_target(t, v);
                }
                touched_all.append(&mut ex.touched);
            }
            self.mark_changed(&touched_all, None);
        }
        Err(SvError::Oscillation(format!("events did not die out after {EVENT_ROUND_CAP} rounds")))
    }
}

/// 9.4.2: posedge = 0->1, 0->x/z, x/z->1; negedge = 1->0, 1->x/z, x/z->0
fn is_edge(prev: Bit, cur: Bit, posedge: bool) -> bool {
    if prev == cur {
        return false;
    }
    let p = if prev == Bit::Z { Bit::X } else { prev };
    let c = if cur == Bit::Z { Bit::X } else { cur };
    if p == c {
        return false;
    }
    if posedge {
        matches!((p, c), (Bit::Zero, Bit::One) | (Bit::Zero, Bit::X) | (Bit::X, Bit::One))
    } else {
        matches!((p, c), (Bit::One, Bit::Zero) | (Bit::One, Bit::X) | (Bit::X, Bit::Zero))
    }
}

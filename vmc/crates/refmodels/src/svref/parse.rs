//! R2 recursive-descent / precedence-climbing parser.

use super::SvError;
use super::ast::*;
use super::lex::{Tok, Token, lex};
use std::rc::Rc;

pub struct Parser {
    toks: Vec<Token>,
    pos: usize,
}

type R<T> = Result<T, SvError>;

const TYPE_KEYWORDS: &[&str] = &[
    "logic", "bit", "reg", "byte", "shortint", "int", "longint", "integer", "struct", "union", "enum", "var",
    "signed", "unsigned", "void", "type",
];
const UNSUPPORTED_TYPES: &[&str] = &[
    "real", "shortreal", "realtime", "string", "time", "chandle", "event", "tri", "wand", "wor", "tri0",
    "tri1", "supply0", "supply1", "uwire", "trireg",
];

fn binary_prec(op: &str) -> Option<u8> {
    Some(match op {
        "**" => 12,
        "*" | "/" | "%" => 11,
        "+" | "-" => 10,
        "<<" | ">>" | "<<<" | ">>>" => 9,
        "<" | "<=" | ">" | ">=" => 8,
        "==" | "!=" | "===" | "!==" | "==?" | "!=?" => 7,
        "&" => 6,
        "^" | "~^" | "^~" => 5,
        "|" => 4,
        "&&" => 3,
        "||" => 2,
        _ => return None,
    })
}

pub fn parse_source(src: &str) -> R<Vec<Unit>> {
    let toks = lex(src)?;
    let mut p = Parser { toks, pos: 0 };
    p.parse_units()
}

impl Parser {
    fn peek(&self) -> &Tok {
        &self.toks[self.pos].tok
    }
    fn peek_at(&self, n: usize) -> &Tok {
        let i = (self.pos + n).min(self.toks.len() - 1);
        &self.toks[i].tok
    }
    fn line(&self) -> u32 {
        self.toks[self.pos].line
    }
    fn next(&mut self) -> Tok {
        let t = self.toks[self.pos].tok.clone();
        if self.pos < self.toks.len() - 1 {
            self.pos += 1;
        }
        t
    }
    fn err<T>(&self, msg: &str) -> R<T> {
        Err(SvError::Parse(format!("line {}: {} (found {:?})", self.line(), msg, self.peek())))
    }
    fn is_op(&self, op: &str) -> bool {
        matches!(self.peek(), Tok::Op(o) if *o == op)
    }
    fn is_op_at(&self, n: usize, op: &str) -> bool {
        matches!(self.peek_at(n), Tok::Op(o) if *o == op)
    }
    fn is_kw(&self, kw: &str) -> bool {
        matches!(self.peek(), Tok::Ident(s) if s == kw)
    }
    fn is_kw_at(&self, n: usize, kw: &str) -> bool {
        matches!(self.peek_at(n), Tok::Ident(s) if s == kw)
    }
    fn eat_op(&mut self, op: &str) -> bool {
        if self.is_op(op) {
            self.next();
            true
        } else {
            false
        }
    }
    fn eat_kw(&mut self, kw: &str) -> bool {
        if self.is_kw(kw) {
            self.next();
            true
        } else {
            false
        }
    }
    fn expect_op(&mut self, op: &str) -> R<()> {
        if self.eat_op(op) { Ok(()) } else { self.err(&format!("expected '{op}'")) }
    }
    fn expect_kw(&mut self, kw: &str) -> R<()> {
        if self.eat_kw(kw) { Ok(()) } else { self.err(&format!("expected '{kw}'")) }
    }
    fn ident(&mut self) -> R<String> {
        match self.peek().clone() {
            Tok::Ident(s) if !is_reserved(&s) => {
                self.next();
                Ok(s)
            }
            _ => self.err("expected identifier"),
        }
    }
    fn peek_ident(&self) -> Option<&str> {
        match self.peek() {
            Tok::Ident(s) if !is_reserved(s) => Some(s.as_str()),
            _ => None,
        }
    }
    fn peek_ident_at(&self, n: usize) -> Option<&str> {
        match self.peek_at(n) {
            Tok::Ident(s) if !is_reserved(s) => Some(s.as_str()),
            _ => None,
        }
    }

    // ------------------------------------------------------------------ units
    fn parse_units(&mut self) -> R<Vec<Unit>> {
        let mut units = vec![];
        loop {
            match self.peek().clone() {
                Tok::Eof => break,
                Tok::Ident(k) if k == "module" || k == "interface" || k == "package" => {
                    units.push(self.parse_unit()?);
                }
                Tok::Ident(k) if k == "import" => {
                    return Err(SvError::Unsupported("compilation-unit scope import".into()));
                }
                Tok::Ident(k)
                    if matches!(
                        k.as_str(),
                        "program" | "class" | "checker" | "primitive" | "config" | "bind" | "typedef" | "localparam"
                            | "parameter" | "function" | "task"
                    ) =>
                {
                    return Err(SvError::Unsupported(format!("compilation-unit item '{k}'")));
                }
                _ => return self.err("expected module, interface or package"),
            }
        }
        Ok(units)
    }

    fn parse_unit(&mut self) -> R<Unit> {
        let kw = self.ident_raw()?;
        let kind = match kw.as_str() {
            "module" => UnitKind::Module,
            "interface" => UnitKind::Interface,
            _ => UnitKind::Package,
        };
        let endkw = match kind {
            UnitKind::Module => "endmodule",
            UnitKind::Interface => "endinterface",
            UnitKind::Package => "endpackage",
        };
        self.eat_kw("automatic");
        self.eat_kw("static");
        let name = self.ident()?;
        let mut params = vec![];
        let mut ports = vec![];
        let mut items = vec![];
        // header imports
        while self.is_kw("import") {
            items.extend(self.parse_import()?);
        }
        if self.eat_op("#") {
            self.expect_op("(")?;
            let mut local = false;
            let mut last_ty: Option<DataType> = None;
            while !self.is_op(")") {
                if self.eat_kw("parameter") {
                    local = false;
                    last_ty = None;
                } else if self.eat_kw("localparam") {
                    local = true;
                    last_ty = None;
                }
                // type (optional)
                let ty = if self.param_has_type() {
                    let t = self.parse_data_type()?;
                    last_ty = Some(t.clone());
                    t
                } else if let Some(t) = &last_ty {
                    t.clone()
                } else {
                    DataType { base: TypeBase::Implicit, signed: None, packed: vec![] }
                };
                let pname = self.ident()?;
                let unpacked = self.parse_unpacked_dims()?;
                let value = if self.eat_op("=") { Some(self.parse_param_value(&ty)?) } else { None };
                params.push(ParamDecl { local, ty, name: pname, unpacked, value });
                if !self.eat_op(",") {
                    break;
                }
            }
            self.expect_op(")")?;
        }
        if self.eat_op("(") {
            let mut last: Option<(Dir, DataType)> = None;
            while !self.is_op(")") {
                let p = self.parse_port(&mut last)?;
                ports.push(p);
                if !self.eat_op(",") {
                    break;
                }
            }
            self.expect_op(")")?;
        }
        self.expect_op(";")?;
        while !self.is_kw(endkw) {
            if matches!(self.peek(), Tok::Eof) {
                return self.err(&format!("missing {endkw}"));
            }
            items.extend(self.parse_item()?);
        }
        self.expect_kw(endkw)?;
        if self.eat_op(":") {
            self.ident()?;
        }
        Ok(Unit { kind, name, params, ports, items })
    }

    fn ident_raw(&mut self) -> R<String> {
        match self.next() {
            Tok::Ident(s) => Ok(s),
            _ => self.err("expected keyword"),
        }
    }

    /// In a parameter list: does the next declarator start with a type (vs. a bare name)?
    fn param_has_type(&self) -> bool {
        match self.peek() {
            Tok::Ident(s) if TYPE_KEYWORDS.contains(&s.as_str()) || UNSUPPORTED_TYPES.contains(&s.as_str()) => true,
            Tok::Op("[") => true,
            Tok::Ident(_) => {
                // `T name` or `pkg::T name` vs `name =`
                if self.is_op_at(1, "::") {
                    true
                } else {
                    matches!(self.peek_at(1), Tok::Ident(_)) || self.is_op_at(1, "[") && self.bracket_then_ident(1)
                }
            }
            _ => false,
        }
    }

    /// token at offset n is `[`; is the token after the matching `]` (possibly repeated dims) an identifier?
    fn bracket_then_ident(&self, mut n: usize) -> bool {
        loop {
            if !self.is_op_at(n, "[") {
                return matches!(self.peek_at(n), Tok::Ident(_));
            }
            let mut depth = 0;
            loop {
                match self.peek_at(n) {
                    Tok::Op("[") => depth += 1,
                    Tok::Op("]") => {
                        depth -= 1;
                        if depth == 0 {
                            n += 1;
                            break;
                        }
                    }
                    Tok::Eof => return false,
                    _ => {}
                }
                n += 1;
            }
        }
    }

    fn parse_param_value(&mut self, ty: &DataType) -> R<Expr> {
        if matches!(ty.base, TypeBase::TypeParam) {
            let t = self.parse_data_type()?;
            Ok(Expr::Type(Box::new(t)))
        } else {
            self.parse_expr()
        }
    }

    fn parse_port(&mut self, last: &mut Option<(Dir, DataType)>) -> R<Port> {
        // interface ports
        if self.is_kw("interface") {
            self.next();
            let modport = if self.eat_op(".") { Some(self.ident()?) } else { None };
            let name = self.ident()?;
            let _ = self.parse_unpacked_dims()?;
            return Ok(Port { name, kind: PortKind::Interface { iface: None, modport } });
        }
        let dir = if self.eat_kw("input") {
            Some(Dir::Input)
        } else if self.eat_kw("output") {
            Some(Dir::Output)
        } else if self.eat_kw("inout") {
            Some(Dir::Inout)
        } else if self.eat_kw("ref") {
            return Err(SvError::Unsupported("ref port".into()));
        } else {
            None
        };
        if dir.is_none() {
            // `Iface.modport name` or `Iface name` or continuation `name` of the previous port type
            if let Some(_) = self.peek_ident() {
                if self.is_op_at(1, ".") {
                    let iface = self.ident()?;
                    self.expect_op(".")?;
                    let modport = self.ident()?;
                    let name = self.ident()?;
                    let dims = self.parse_unpacked_dims()?;
                    if !dims.is_empty() {
                        return Err(SvError::Unsupported("interface array port".into()));
                    }
                    return Ok(Port { name, kind: PortKind::Interface { iface: Some(iface), modport: Some(modport) } });
                }
                if self.peek_ident_at(1).is_some() && last.is_none() {
                    let iface = self.ident()?;
                    let name = self.ident()?;
                    return Ok(Port { name, kind: PortKind::Interface { iface: Some(iface), modport: None } });
                }
                if let Some((d, t)) = last.clone() {
                    if self.is_op_at(1, ",") || self.is_op_at(1, ")") || self.is_op_at(1, "=") || self.is_op_at(1, "[") {
                        let name = self.ident()?;
                        let unpacked = self.parse_unpacked_dims()?;
                        let default = if self.eat_op("=") { Some(self.parse_expr()?) } else { None };
                        return Ok(Port { name, kind: PortKind::Var { dir: d, ty: t, unpacked, default } });
                    }
                }
            }
            return self.err("expected port direction");
        }
        let dir = dir.unwrap();
        if let Tok::Ident(s) = self.peek() {
            if UNSUPPORTED_TYPES.contains(&s.as_str()) {
                return Err(SvError::Unsupported(format!("port of kind '{s}'")));
            }
        }
        let ty = self.parse_data_type()?;
        let name = self.ident()?;
        let unpacked = self.parse_unpacked_dims()?;
        let default = if self.eat_op("=") { Some(self.parse_expr()?) } else { None };
        *last = Some((dir, ty.clone()));
        Ok(Port { name, kind: PortKind::Var { dir, ty, unpacked, default } })
    }

    fn parse_import(&mut self) -> R<Vec<Item>> {
        self.expect_kw("import")?;
        let mut out = vec![];
        loop {
            let pkg = self.ident()?;
            self.expect_op("::")?;
            if self.eat_op("*") {
                out.push(Item::Import { pkg, name: None });
            } else {
                let n = self.ident()?;
                out.push(Item::Import { pkg, name: Some(n) });
            }
            if !self.eat_op(",") {
                break;
            }
        }
        self.expect_op(";")?;
        Ok(out)
    }

    // ------------------------------------------------------------------ types
    fn parse_dims(&mut self) -> R<Vec<Dim>> {
        let mut dims = vec![];
        while self.is_op("[") {
            self.next();
            let a = self.parse_expr()?;
            let b = if self.eat_op(":") { Some(self.parse_expr()?) } else { None };
            self.expect_op("]")?;
            dims.push(Dim { a, b });
        }
        Ok(dims)
    }
    fn parse_unpacked_dims(&mut self) -> R<Vec<Dim>> {
        if self.is_op("[") && (self.is_op_at(1, "]") || self.is_op_at(1, "$") || self.is_op_at(1, "*")) {
            return Err(SvError::Unsupported("dynamic/associative/queue array".into()));
        }
        self.parse_dims()
    }

    fn parse_signing(&mut self) -> Option<bool> {
        if self.eat_kw("signed") {
            Some(true)
        } else if self.eat_kw("unsigned") {
            Some(false)
        } else {
            None
        }
    }

    pub fn parse_data_type(&mut self) -> R<DataType> {
        self.eat_kw("var");
        let t = self.peek().clone();
        let base = match &t {
            Tok::Ident(s) => match s.as_str() {
                "logic" | "reg" => {
                    self.next();
                    TypeBase::Bits { two_state: false }
                }
                "wire" => {
                    // single-driver nets behave like 4-state variables here (`wire logic` too)
                    self.next();
                    if self.is_kw("logic") {
                        self.next();
                    }
                    TypeBase::Bits { two_state: false }
                }
                "bit" => {
                    self.next();
                    TypeBase::Bits { two_state: true }
                }
                "byte" => {
                    self.next();
                    TypeBase::Int { width: 8, two_state: true }
                }
                "shortint" => {
                    self.next();
                    TypeBase::Int { width: 16, two_state: true }
                }
                "int" => {
                    self.next();
                    TypeBase::Int { width: 32, two_state: true }
                }
                "longint" => {
                    self.next();
                    TypeBase::Int { width: 64, two_state: true }
                }
                "integer" => {
                    self.next();
                    TypeBase::Int { width: 32, two_state: false }
                }
                "void" => {
                    self.next();
                    TypeBase::Void
                }
                "type" => {
                    self.next();
                    if self.is_op("(") {
                        return Err(SvError::Unsupported("type() operator".into()));
                    }
                    TypeBase::TypeParam
                }
                "struct" | "union" => {
                    let union = s == "union";
                    self.next();
                    if self.eat_kw("tagged") {
                        return Err(SvError::Unsupported("tagged union".into()));
                    }
                    if !self.eat_kw("packed") {
                        return Err(SvError::Unsupported("unpacked struct/union".into()));
                    }
                    let signed = self.parse_signing();
                    self.expect_op("{")?;
                    let mut fields = vec![];
                    while !self.is_op("}") {
                        let fty = self.parse_data_type()?;
                        loop {
                            let fname = self.ident()?;
                            if self.is_op("[") {
                                return Err(SvError::Unsupported("unpacked dimension on a struct member".into()));
                            }
                            if self.is_op("=") {
                                return Err(SvError::Unsupported("struct member default value".into()));
                            }
                            fields.push((fty.clone(), fname));
                            if !self.eat_op(",") {
                                break;
                            }
                        }
                        self.expect_op(";")?;
                    }
                    self.expect_op("}")?;
                    let packed = self.parse_dims()?;
                    return Ok(DataType { base: TypeBase::Struct { union, fields }, signed, packed });
                }
                "enum" => {
                    self.next();
                    let base = if self.is_op("{") { None } else { Some(Box::new(self.parse_data_type()?)) };
                    self.expect_op("{")?;
                    let mut members = vec![];
                    while !self.is_op("}") {
                        let n = self.ident()?;
                        if self.is_op("[") {
                            return Err(SvError::Unsupported("enum member range".into()));
                        }
                        let v = if self.eat_op("=") { Some(self.parse_expr()?) } else { None };
                        members.push((n, v));
                        if !self.eat_op(",") {
                            break;
                        }
                    }
                    self.expect_op("}")?;
                    let packed = self.parse_dims()?;
                    return Ok(DataType { base: TypeBase::Enum { base, members }, signed: None, packed });
                }
                "signed" | "unsigned" => TypeBase::Implicit,
                k if UNSUPPORTED_TYPES.contains(&k) => {
                    return Err(SvError::Unsupported(format!("type '{k}'")));
                }
                k if is_reserved(k) => return self.err("expected data type"),
                _ => {
                    let first = self.ident()?;
                    if self.eat_op("::") {
                        let n = self.ident()?;
                        TypeBase::Named { pkg: Some(first), name: n }
                    } else {
                        TypeBase::Named { pkg: None, name: first }
                    }
                }
            },
            Tok::Op("[") => TypeBase::Implicit,
            _ => return self.err("expected data type"),
        };
        let signed = self.parse_signing();
        let packed = self.parse_dims()?;
        Ok(DataType { base, signed, packed })
    }

    // ------------------------------------------------------------------ items
    fn starts_type_keyword(&self) -> bool {
        matches!(self.peek(), Tok::Ident(s) if TYPE_KEYWORDS.contains(&s.as_str()))
    }

    fn parse_item(&mut self) -> R<Vec<Item>> {
        let line = self.line();
        let t = self.peek().clone();
        let Tok::Ident(k) = &t else {
            if self.eat_op(";") {
                return Ok(vec![]);
            }
            return self.err("expected module item");
        };
        match k.as_str() {
            "localparam" | "parameter" => {
                let ps = self.parse_param_decl()?;
                Ok(ps.into_iter().map(Item::Param).collect())
            }
            "typedef" => {
                self.next();
                let ty = self.parse_data_type()?;
                let name = self.ident()?;
                let unpacked = self.parse_unpacked_dims()?;
                self.expect_op(";")?;
                Ok(vec![Item::Typedef { ty, name, unpacked }])
            }
            "function" => Ok(vec![Item::Func(Rc::new(self.parse_function()?))]),
            "task" => Err(SvError::Unsupported("task".into())),
            "assign" => {
                self.next();
                let mut out = vec![];
                loop {
                    let lhs = self.parse_postfix_primary()?;
                    self.expect_op("=")?;
                    let rhs = self.parse_expr()?;
                    out.push(Item::Assign { lhs, rhs });
                    if !self.eat_op(",") {
                        break;
                    }
                }
                self.expect_op(";")?;
                Ok(out)
            }
            "always_comb" => {
                self.next();
                let s = self.parse_stmt()?;
                Ok(vec![Item::AlwaysComb(s)])
            }
            "always_ff" => {
                self.next();
                self.expect_op("@")?;
                self.expect_op("(")?;
                let mut edges = vec![];
                loop {
                    let posedge = if self.eat_kw("posedge") {
                        true
                    } else if self.eat_kw("negedge") {
                        false
                    } else {
                        return Err(SvError::Unsupported("always_ff event without posedge/negedge".into()));
                    };
                    let signal = self.parse_expr()?;
                    edges.push(Edge { posedge, signal });
                    if self.eat_op(",") || self.eat_kw("or") {
                        continue;
                    }
                    break;
                }
                self.expect_op(")")?;
                let body = self.parse_stmt()?;
                Ok(vec![Item::AlwaysFf { edges, body }])
            }
            "always" | "always_latch" => Err(SvError::Unsupported(format!("'{k}' process"))),
            "initial" | "final" => {
                let k = k.clone();
                self.next();
                // parse and discard the statement; the scope is marked unsupported
                match self.parse_stmt() {
                    Ok(_) => {}
                    Err(SvError::Unsupported(_)) | Err(SvError::Parse(_)) => {
                        return Err(SvError::Unsupported(format!("'{k}' block")));
                    }
                    Err(e) => return Err(e),
                }
                Ok(vec![Item::Unsupported(format!("'{k}' block"))])
            }
            "import" => self.parse_import(),
            "export" => Err(SvError::Unsupported("export".into())),
            "modport" => {
                self.next();
                let mut out = vec![];
                loop {
                    let name = self.ident()?;
                    self.expect_op("(")?;
                    let mut ports = vec![];
                    let mut dir = String::new();
                    while !self.is_op(")") {
                        if let Tok::Ident(s) = self.peek().clone() {
                            if matches!(s.as_str(), "input" | "output" | "inout" | "ref" | "import" | "export") {
                                dir = s;
                                self.next();
                            }
                        }
                        if self.is_op(".") {
                            return Err(SvError::Unsupported("modport expression".into()));
                        }
                        let n = self.ident()?;
                        ports.push((dir.clone(), n));
                        if !self.eat_op(",") {
                            break;
                        }
                    }
                    self.expect_op(")")?;
                    out.push(Item::Modport { name, ports });
                    if !self.eat_op(",") {
                        break;
                    }
                }
                self.expect_op(";")?;
                Ok(out)
            }
            "generate" | "endgenerate" => {
                self.next();
                Ok(vec![])
            }
            "genvar" => {
                self.next();
                loop {
                    self.ident()?;
                    if !self.eat_op(",") {
                        break;
                    }
                }
                self.expect_op(";")?;
                Ok(vec![])
            }
            "if" => Ok(vec![self.parse_gen_if()?]),
            "for" => Ok(vec![self.parse_gen_for()?]),
            "begin" => {
                let (label, items) = self.parse_gen_block()?;
                Ok(vec![Item::GenBlock { label, items }])
            }
            "case" => Err(SvError::Unsupported("generate case".into())),
            "bind" | "assert" | "assume" | "cover" | "property" | "sequence" | "covergroup" | "clocking" | "default"
            | "specify" | "defparam" | "alias" | "class" | "program" | "timeunit" | "timeprecision" | "let"
            | "global" | "restrict" | "checker" | "constraint" | "virtual" | "extern" | "static" | "automatic"
            | "const" => Err(SvError::Unsupported(format!("module item '{k}'"))),
            k if UNSUPPORTED_TYPES.contains(&k) => Err(SvError::Unsupported(format!("declaration of kind '{k}'"))),
            "wire" => {
                // net declaration; `wire w = e;` is a declaration plus a continuous assignment
                let ds = self.parse_var_decl()?;
                let mut out = vec![];
                for mut d in ds {
                    let init = d.init.take();
                    let name = d.name.clone();
                    out.push(Item::Var(d));
                    if let Some(rhs) = init {
                        out.push(Item::Assign { lhs: Expr::Ident { pkg: None, name }, rhs });
                    }
                }
                Ok(out)
            }
            _ if self.starts_type_keyword() => {
                let ds = self.parse_var_decl()?;
                Ok(ds.into_iter().map(Item::Var).collect())
            }
            _ => {
                // named-type variable or instance
                if is_reserved(k) {
                    return self.err("unexpected keyword");
                }
                if self.looks_like_instance() {
                    Ok(vec![Item::Inst(self.parse_instance(line)?)])
                } else {
                    let ds = self.parse_var_decl()?;
                    Ok(ds.into_iter().map(Item::Var).collect())
                }
            }
        }
    }

    /// Current token is a plain identifier at item level. Instance: `M #(`, `M name (`, `M name [..] (`.
    fn looks_like_instance(&self) -> bool {
        if self.is_op_at(1, "#") {
            return true;
        }
        if self.is_op_at(1, "::") {
            return false;
        }
        if self.peek_ident_at(1).is_none() {
            return false;
        }
        if self.is_op_at(2, "(") {
            return true;
        }
        if self.is_op_at(2, "[") {
            // skip dims
            let mut n = 2;
            while self.is_op_at(n, "[") {
                let mut depth = 0;
                loop {
                    match self.peek_at(n) {
                        Tok::Op("[") => depth += 1,
                        Tok::Op("]") => {
                            depth -= 1;
                            if depth == 0 {
                                n += 1;
                                break;
                            }
                        }
                        Tok::Eof => return false,
                        _ => {}
                    }
                    n += 1;
                }
            }
            return self.is_op_at(n, "(");
        }
        false
    }

    fn parse_instance(&mut self, line: u32) -> R<InstDecl> {
        let module = self.ident()?;
        let mut params = vec![];
        if self.eat_op("#") {
            self.expect_op("(")?;
            while !self.is_op(")") {
                if !self.eat_op(".") {
                    return Err(SvError::Unsupported("positional parameter override".into()));
                }
                let n = self.ident()?;
                self.expect_op("(")?;
                let v = if self.is_op(")") { None } else { Some(self.parse_expr_or_type()?) };
                self.expect_op(")")?;
                params.push((n, v));
                if !self.eat_op(",") {
                    break;
                }
            }
            self.expect_op(")")?;
        }
        let name = self.ident()?;
        let array = self.parse_dims()?;
        self.expect_op("(")?;
        let mut conns = vec![];
        while !self.is_op(")") {
            if !self.is_op(".") {
                // positional connection: resolved against the module's port order at elaboration
                let v = if self.is_op(",") { None } else { Some(self.parse_expr()?) };
                conns.push((format!("\u{1}pos{}", conns.len()), v));
                if !self.eat_op(",") {
                    break;
                }
                continue;
            }
            self.next();
            if self.eat_op("*") {
                return Err(SvError::Unsupported("wildcard port connection".into()));
            }
            let n = self.ident()?;
            if self.eat_op("(") {
                let v = if self.is_op(")") { None } else { Some(self.parse_expr()?) };
                self.expect_op(")")?;
                conns.push((n, v));
            } else {
                // implicit .name
                conns.push((n.clone(), Some(Expr::Ident { pkg: None, name: n })));
            }
            if !self.eat_op(",") {
                break;
            }
        }
        self.expect_op(")")?;
        if self.is_op(",") {
            return Err(SvError::Unsupported("multiple instances in one statement".into()));
        }
        self.expect_op(";")?;
        Ok(InstDecl { module, params, name, array, conns, line })
    }

    fn parse_expr_or_type(&mut self) -> R<Expr> {
        // a type keyword starts a data type; named types are parsed as expressions and resolved later
        if self.starts_type_keyword() && !self.is_kw("signed") && !self.is_kw("unsigned") {
            // could still be a cast like `int'(x)`: let the expression parser handle it (primary handles types)
            return self.parse_expr();
        }
        self.parse_expr()
    }

    fn parse_param_decl(&mut self) -> R<Vec<ParamDecl>> {
        let local = self.is_kw("localparam");
        self.next();
        let ty = if self.param_has_type() {
            self.parse_data_type()?
        } else {
            DataType { base: TypeBase::Implicit, signed: None, packed: vec![] }
        };
        let mut out = vec![];
        loop {
            let name = self.ident()?;
            let unpacked = self.parse_unpacked_dims()?;
            let value = if self.eat_op("=") { Some(self.parse_param_value(&ty)?) } else { None };
            out.push(ParamDecl { local, ty: ty.clone(), name, unpacked, value });
            if !self.eat_op(",") {
                break;
            }
        }
        self.expect_op(";")?;
        Ok(out)
    }

    fn parse_var_decl(&mut self) -> R<Vec<VarDecl>> {
        if self.eat_kw("static") || self.eat_kw("automatic") || self.eat_kw("const") {
            return Err(SvError::Unsupported("lifetime/const qualifier on a variable".into()));
        }
        let ty = self.parse_data_type()?;
        let mut out = vec![];
        loop {
            let name = self.ident()?;
            let unpacked = self.parse_unpacked_dims()?;
            let init = if self.eat_op("=") { Some(self.parse_expr()?) } else { None };
            out.push(VarDecl { ty: ty.clone(), name, unpacked, init });
            if !self.eat_op(",") {
                break;
            }
        }
        self.expect_op(";")?;
        Ok(out)
    }

    fn parse_function(&mut self) -> R<FuncDecl> {
        self.expect_kw("function")?;
        if !self.eat_kw("automatic") {
            self.eat_kw("static");
            return Err(SvError::Unsupported("non-automatic function".into()));
        }
        // return type (may be implicit)
        let ret = if self.peek_ident().is_some() && (self.is_op_at(1, "(") || self.is_op_at(1, ";")) {
            DataType { base: TypeBase::Bits { two_state: false }, signed: None, packed: vec![] }
        } else {
            self.parse_data_type()?
        };
        let name = self.ident()?;
        let mut ports = vec![];
        if self.eat_op("(") {
            let mut last: Option<(Dir, DataType)> = None;
            while !self.is_op(")") {
                let dir = if self.eat_kw("input") {
                    Some(Dir::Input)
                } else if self.eat_kw("output") {
                    Some(Dir::Output)
                } else if self.eat_kw("inout") {
                    Some(Dir::Inout)
                } else if self.is_kw("ref") || self.is_kw("const") {
                    return Err(SvError::Unsupported("ref function argument".into()));
                } else {
                    None
                };
                let has_type = dir.is_some() || self.starts_type_keyword() || self.peek_ident_at(1).is_some()
                    || self.is_op_at(1, "::");
                let (d, t) = if has_type {
                    let t = if self.peek_ident().is_some()
                        && !self.starts_type_keyword()
                        && (self.is_op_at(1, ",") || self.is_op_at(1, ")"))
                    {
                        // `input a` : implicit logic
                        DataType { base: TypeBase::Bits { two_state: false }, signed: None, packed: vec![] }
                    } else {
                        self.parse_data_type()?
                    };
                    (dir.unwrap_or(last.as_ref().map(|x| x.0).unwrap_or(Dir::Input)), t)
                } else {
                    match &last {
                        Some(x) => x.clone(),
                        None => (
                            Dir::Input,
                            DataType { base: TypeBase::Bits { two_state: false }, signed: None, packed: vec![] },
                        ),
                    }
                };
                let pname = self.ident()?;
                let unpacked = self.parse_unpacked_dims()?;
                if self.is_op("=") {
                    return Err(SvError::Unsupported("function argument default".into()));
                }
                last = Some((d, t.clone()));
                ports.push((d, t, pname, unpacked));
                if !self.eat_op(",") {
                    break;
                }
            }
            self.expect_op(")")?;
        }
        self.expect_op(";")?;
        let mut body = vec![];
        while !self.is_kw("endfunction") {
            if matches!(self.peek(), Tok::Eof) {
                return self.err("missing endfunction");
            }
            body.push(self.parse_stmt()?);
        }
        self.expect_kw("endfunction")?;
        if self.eat_op(":") {
            self.ident()?;
        }
        Ok(FuncDecl { name, ret, ports, body })
    }

    fn parse_gen_block(&mut self) -> R<(Option<String>, Vec<Item>)> {
        // either `begin [:label] items end [:label]` or a single item
        if self.eat_kw("begin") {
            let label = if self.eat_op(":") { Some(self.ident()?) } else { None };
            let mut items = vec![];
            while !self.is_kw("end") {
                if matches!(self.peek(), Tok::Eof) {
                    return self.err("missing end");
                }
                items.extend(self.parse_item()?);
            }
            self.expect_kw("end")?;
            if self.eat_op(":") {
                self.ident()?;
            }
            Ok((label, items))
        } else {
            let items = self.parse_item()?;
            Ok((None, items))
        }
    }

    fn parse_gen_if(&mut self) -> R<Item> {
        self.expect_kw("if")?;
        self.expect_op("(")?;
        let cond = self.parse_expr()?;
        self.expect_op(")")?;
        let (label, then_items) = self.parse_gen_block()?;
        let else_items = if self.eat_kw("else") {
            if self.is_kw("if") {
                Some(vec![self.parse_gen_if()?])
            } else {
                let (l2, items) = self.parse_gen_block()?;
                Some(vec![Item::GenBlock { label: l2, items }])
            }
        } else {
            None
        };
        Ok(Item::GenIf { cond, label, then_items, else_items })
    }

    fn parse_gen_for(&mut self) -> R<Item> {
        self.expect_kw("for")?;
        self.expect_op("(")?;
        self.eat_kw("genvar");
        let var = self.ident()?;
        self.expect_op("=")?;
        let init = self.parse_expr()?;
        self.expect_op(";")?;
        let cond = self.parse_expr()?;
        self.expect_op(";")?;
        let step = self.parse_simple_stmt_no_semi()?;
        self.expect_op(")")?;
        let (label, items) = self.parse_gen_block()?;
        Ok(Item::GenFor { var, init, cond, step: Box::new(step), label, items })
    }

    // ------------------------------------------------------------------ statements
    fn stmt_starts_decl(&self) -> bool {
        if self.starts_type_keyword() {
            // `signed'(x)` / `unsigned'(x)` / `int'(x)` cannot start a statement
            return true;
        }
        if let Some(_) = self.peek_ident() {
            // `T name` or `pkg::T name`
            if self.peek_ident_at(1).is_some() {
                return true;
            }
            if self.is_op_at(1, "::") && self.peek_ident_at(2).is_some() && self.peek_ident_at(3).is_some() {
                return true;
            }
            if self.is_op_at(1, "[") && self.bracket_then_ident(1) {
                // `T [3:0] name` — but `a[i] <= ..` never has an identifier right after `]`
                return true;
            }
        }
        false
    }

    pub fn parse_stmt(&mut self) -> R<Stmt> {
        let t = self.peek().clone();
        match &t {
            Tok::Op(";") => {
                self.next();
                Ok(Stmt::Null)
            }
            Tok::Ident(k) => match k.as_str() {
                "begin" => {
                    self.next();
                    let name = if self.eat_op(":") { Some(self.ident()?) } else { None };
                    let mut items = vec![];
                    while !self.is_kw("end") {
                        if matches!(self.peek(), Tok::Eof) {
                            return self.err("missing end");
                        }
                        items.push(self.parse_stmt()?);
                    }
                    self.expect_kw("end")?;
                    if self.eat_op(":") {
                        self.ident()?;
                    }
                    Ok(Stmt::Block { name, items })
                }
                "unique" | "unique0" | "priority" => {
                    self.next();
                    if !(self.is_kw("if") || self.is_kw("case") || self.is_kw("casez") || self.is_kw("casex")) {
                        return self.err("expected if/case after unique/priority");
                    }
                    self.parse_stmt()
                }
                "if" => {
                    self.next();
                    self.expect_op("(")?;
                    let cond = self.parse_expr()?;
                    self.expect_op(")")?;
                    let then_s = Box::new(self.parse_stmt()?);
                    let else_s = if self.eat_kw("else") { Some(Box::new(self.parse_stmt()?)) } else { None };
                    Ok(Stmt::If { cond, then_s, else_s })
                }
                "case" | "casez" | "casex" => {
                    let mut kind = match k.as_str() {
                        "case" => CaseKind::Case,
                        "casez" => CaseKind::CaseZ,
                        _ => CaseKind::CaseX,
                    };
                    self.next();
                    self.expect_op("(")?;
                    let expr = self.parse_expr()?;
                    self.expect_op(")")?;
                    if self.eat_kw("inside") {
                        if kind != CaseKind::Case {
                            return self.err("casez/casex inside");
                        }
                        kind = CaseKind::Inside;
                    }
                    if self.is_kw("matches") {
                        return Err(SvError::Unsupported("case matches".into()));
                    }
                    let mut items = vec![];
                    while !self.is_kw("endcase") {
                        if matches!(self.peek(), Tok::Eof) {
                            return self.err("missing endcase");
                        }
                        if self.eat_kw("default") {
                            self.eat_op(":");
                            let body = self.parse_stmt()?;
                            items.push(CaseItem { labels: vec![], body });
                            continue;
                        }
                        let mut labels = vec![];
                        loop {
                            if kind == CaseKind::Inside && self.is_op("[") {
                                self.next();
                                let lo = self.parse_expr()?;
                                self.expect_op(":")?;
                                let hi = self.parse_expr()?;
                                self.expect_op("]")?;
                                labels.push(InsideItem::Range(lo, hi));
                            } else {
                                labels.push(InsideItem::Value(self.parse_expr()?));
                            }
                            if !self.eat_op(",") {
                                break;
                            }
                        }
                        self.expect_op(":")?;
                        let body = self.parse_stmt()?;
                        items.push(CaseItem { labels, body });
                    }
                    self.expect_kw("endcase")?;
                    Ok(Stmt::Case { kind, expr, items })
                }
                "for" => {
                    self.next();
                    self.expect_op("(")?;
                    let init = if self.stmt_starts_decl() {
                        let ty = self.parse_data_type()?;
                        let name = self.ident()?;
                        self.expect_op("=")?;
                        let e = self.parse_expr()?;
                        if self.is_op(",") {
                            return Err(SvError::Unsupported("multiple for-loop variables".into()));
                        }
                        Stmt::VarDecl(VarDecl { ty, name, unpacked: vec![], init: Some(e) })
                    } else {
                        self.parse_simple_stmt_no_semi()?
                    };
                    self.expect_op(";")?;
                    let cond = self.parse_expr()?;
                    self.expect_op(";")?;
                    let step = self.parse_simple_stmt_no_semi()?;
                    if self.is_op(",") {
                        return Err(SvError::Unsupported("multiple for-loop steps".into()));
                    }
                    self.expect_op(")")?;
                    let body = Box::new(self.parse_stmt()?);
                    Ok(Stmt::For { init: Box::new(init), cond, step: Box::new(step), body })
                }
                "break" => {
                    self.next();
                    self.expect_op(";")?;
                    Ok(Stmt::Break)
                }
                "return" => {
                    self.next();
                    let e = if self.is_op(";") { None } else { Some(self.parse_expr()?) };
                    self.expect_op(";")?;
                    Ok(Stmt::Return(e))
                }
                "localparam" | "parameter" => {
                    let ps = self.parse_param_decl()?;
                    if ps.len() == 1 {
                        Ok(Stmt::ParamDecl(ps.into_iter().next().unwrap()))
                    } else {
                        Ok(Stmt::Block { name: None, items: ps.into_iter().map(Stmt::ParamDecl).collect() })
                    }
                }
                "while" | "do" | "repeat" | "forever" | "foreach" | "continue" | "wait" | "fork" | "disable"
                | "assert" | "assume" | "cover" | "force" | "release" | "assign" | "deassign" | "randcase"
                | "static" | "automatic" | "const" | "typedef" | "import" => {
                    Err(SvError::Unsupported(format!("statement '{k}'")))
                }
                k if UNSUPPORTED_TYPES.contains(&k) => Err(SvError::Unsupported(format!("declaration of kind '{k}'"))),
                _ => {
                    if self.stmt_starts_decl() {
                        let ds = self.parse_var_decl()?;
                        if ds.len() == 1 {
                            Ok(Stmt::VarDecl(ds.into_iter().next().unwrap()))
                        } else {
                            // several declarators: a flat run of declarations (no new scope)
                            Ok(Stmt::Block { name: Some("\u{0}flat".into()), items: ds.into_iter().map(Stmt::VarDecl).collect() })
                        }
                    } else {
                        let s = self.parse_simple_stmt_no_semi()?;
                        self.expect_op(";")?;
                        Ok(s)
                    }
                }
            },
            Tok::Op("{") | Tok::SysIdent(_) => {
                let s = self.parse_simple_stmt_no_semi()?;
                self.expect_op(";")?;
                Ok(s)
            }
            Tok::Op("#") | Tok::Op("@") | Tok::Op("->") => Err(SvError::Unsupported("timing control".into())),
            Tok::Op("++") | Tok::Op("--") => {
                let inc = self.is_op("++");
                self.next();
                let lhs = self.parse_postfix_primary()?;
                self.expect_op(";")?;
                Ok(Stmt::IncDec { lhs, inc })
            }
            _ => self.err("expected statement"),
        }
    }

    /// assignment / inc-dec / call, without the trailing `;`
    fn parse_simple_stmt_no_semi(&mut self) -> R<Stmt> {
        if self.is_op("++") || self.is_op("--") {
            let inc = self.is_op("++");
            self.next();
            let lhs = self.parse_postfix_primary()?;
            return Ok(Stmt::IncDec { lhs, inc });
        }
        let lhs = self.parse_postfix_primary()?;
        let t = self.peek().clone();
        match t {
            Tok::Op("=") => {
                self.next();
                if self.is_op("#") || self.is_op("@") {
                    return Err(SvError::Unsupported("intra-assignment timing control".into()));
                }
                let rhs = self.parse_expr()?;
                Ok(Stmt::Assign { lhs, op: "=", rhs, nb: false })
            }
            Tok::Op("<=") => {
                self.next();
                if self.is_op("#") || self.is_op("@") {
                    return Err(SvError::Unsupported("intra-assignment timing control".into()));
                }
                let rhs = self.parse_expr()?;
                Ok(Stmt::Assign { lhs, op: "=", rhs, nb: true })
            }
            Tok::Op(op)
                if matches!(op, "+=" | "-=" | "*=" | "/=" | "%=" | "&=" | "|=" | "^=" | "<<=" | ">>=" | "<<<=" | ">>>=") =>
            {
                self.next();
                let rhs = self.parse_expr()?;
                Ok(Stmt::Assign { lhs, op, rhs, nb: false })
            }
            Tok::Op("++") => {
                self.next();
                Ok(Stmt::IncDec { lhs, inc: true })
            }
            Tok::Op("--") => {
                self.next();
                Ok(Stmt::IncDec { lhs, inc: false })
            }
            _ => match lhs {
                Expr::Call { .. } | Expr::SysCall { .. } => Ok(Stmt::Expr(lhs)),
                Expr::Cast(ref t, ref e) if matches!(**t, Expr::Type(ref d) if matches!(d.base, TypeBase::Void)) => {
                    Ok(Stmt::Expr((**e).clone()))
                }
                _ => self.err("expected assignment operator"),
            },
        }
    }

    // ------------------------------------------------------------------ expressions
    pub fn parse_expr(&mut self) -> R<Expr> {
        self.parse_cond()
    }

    fn parse_cond(&mut self) -> R<Expr> {
        let c = self.parse_binary(1)?;
        if self.eat_op("?") {
            let t = self.parse_cond()?;
            self.expect_op(":")?;
            let e = self.parse_cond()?;
            return Ok(Expr::Cond(Box::new(c), Box::new(t), Box::new(e)));
        }
        if self.is_op("->") || self.is_kw("dist") || self.is_kw("matches") {
            return Err(SvError::Unsupported("implication/dist/matches operator".into()));
        }
        Ok(c)
    }

    fn parse_binary(&mut self, min_prec: u8) -> R<Expr> {
        let mut lhs = self.parse_unary()?;
        loop {
            // `inside` sits at the relational level
            if self.is_kw("inside") && 8 >= min_prec {
                self.next();
                self.expect_op("{")?;
                let mut items = vec![];
                while !self.is_op("}") {
                    if self.eat_op("[") {
                        let lo = self.parse_expr()?;
                        self.expect_op(":")?;
                        let hi = self.parse_expr()?;
                        self.expect_op("]")?;
                        items.push(InsideItem::Range(lo, hi));
                    } else {
                        items.push(InsideItem::Value(self.parse_expr()?));
                    }
                    if !self.eat_op(",") {
                        break;
                    }
                }
                self.expect_op("}")?;
                lhs = Expr::Inside(Box::new(lhs), items);
                continue;
            }
            let op = match self.peek() {
                Tok::Op(o) => *o,
                _ => break,
            };
            let Some(prec) = binary_prec(op) else { break };
            if prec < min_prec {
                break;
            }
            self.next();
            // all binary operators here are left-associative
            let rhs = self.parse_binary(prec + 1)?;
            lhs = Expr::Binary(op, Box::new(lhs), Box::new(rhs));
        }
        Ok(lhs)
    }

    fn parse_unary(&mut self) -> R<Expr> {
        if let Tok::Op(o) = self.peek() {
            let o = *o;
            if matches!(o, "+" | "-" | "!" | "~" | "&" | "~&" | "|" | "~|" | "^" | "~^" | "^~") {
                self.next();
                let e = self.parse_unary()?;
                return Ok(Expr::Unary(o, Box::new(e)));
            }
            if o == "++" || o == "--" {
                return Err(SvError::Unsupported("increment/decrement inside an expression".into()));
            }
        }
        self.parse_postfix_primary()
    }

    fn parse_args(&mut self) -> R<Vec<Arg>> {
        // after "("
        let mut args = vec![];
        while !self.is_op(")") {
            if self.eat_op(".") {
                let n = self.ident()?;
                self.expect_op("(")?;
                let e = if self.is_op(")") { None } else { Some(self.parse_expr()?) };
                self.expect_op(")")?;
                args.push(Arg { name: Some(n), expr: e });
            } else if self.is_op(",") {
                args.push(Arg { name: None, expr: None });
            } else {
                args.push(Arg { name: None, expr: Some(self.parse_expr()?) });
            }
            if !self.eat_op(",") {
                break;
            }
        }
        self.expect_op(")")?;
        Ok(args)
    }

    fn parse_pattern_items(&mut self) -> R<Vec<PatItem>> {
        // after "'{"
        let mut items = vec![];
        while !self.is_op("}") {
            if self.is_kw("default") {
                self.next();
                self.expect_op(":")?;
                items.push(PatItem::Default(self.parse_expr()?));
            } else {
                let e = self.parse_expr()?;
                if self.eat_op(":") {
                    let Expr::Ident { pkg: None, name } = e else {
                        return Err(SvError::Unsupported("assignment pattern with index/type key".into()));
                    };
                    items.push(PatItem::Named(name, self.parse_expr()?));
                } else if self.eat_op("{") {
                    let mut list = vec![];
                    while !self.is_op("}") {
                        list.push(self.parse_expr()?);
                        if !self.eat_op(",") {
                            break;
                        }
                    }
                    self.expect_op("}")?;
                    items.push(PatItem::Repl(e, list));
                } else {
                    items.push(PatItem::Pos(e));
                }
            }
            if !self.eat_op(",") {
                break;
            }
        }
        self.expect_op("}")?;
        Ok(items)
    }

    pub fn parse_postfix_primary(&mut self) -> R<Expr> {
        let mut e = self.parse_primary()?;
        loop {
            if self.is_op("[") {
                self.next();
                let a = self.parse_expr()?;
                if self.eat_op(":") {
                    let b = self.parse_expr()?;
                    self.expect_op("]")?;
                    e = Expr::Range(Box::new(e), Box::new(a), Box::new(b));
                } else if self.eat_op("+:") {
                    let b = self.parse_expr()?;
                    self.expect_op("]")?;
                    e = Expr::IndexedRange(Box::new(e), Box::new(a), Box::new(b), true);
                } else if self.eat_op("-:") {
                    let b = self.parse_expr()?;
                    self.expect_op("]")?;
                    e = Expr::IndexedRange(Box::new(e), Box::new(a), Box::new(b), false);
                } else {
                    self.expect_op("]")?;
                    e = Expr::Index(Box::new(e), Box::new(a));
                }
                continue;
            }
            if self.is_op(".") && self.peek_ident_at(1).is_some() {
                self.next();
                let n = self.ident()?;
                e = Expr::Member(Box::new(e), n);
                continue;
            }
            if self.is_op("(") && matches!(e, Expr::Ident { .. } | Expr::Member(..)) {
                self.next();
                let args = self.parse_args()?;
                e = Expr::Call { func: Box::new(e), args };
                continue;
            }
            if self.is_op("'") && self.is_op_at(1, "(") {
                self.next();
                self.next();
                let inner = self.parse_expr()?;
                self.expect_op(")")?;
                e = Expr::Cast(Box::new(e), Box::new(inner));
                continue;
            }
            if self.is_op("'{") && matches!(e, Expr::Ident { .. } | Expr::Type(_)) {
                self.next();
                let items = self.parse_pattern_items()?;
                e = Expr::Pattern { ty: Some(Box::new(e)), items };
                continue;
            }
            break;
        }
        Ok(e)
    }

    fn parse_primary(&mut self) -> R<Expr> {
        let t = self.peek().clone();
        match t {
            Tok::Num { v, sized } => {
                self.next();
                Ok(Expr::Num { v, sized })
            }
            Tok::Unbased(b) => {
                self.next();
                Ok(Expr::Unbased(b))
            }
            Tok::Str(s) => {
                self.next();
                Ok(Expr::Str(s))
            }
            Tok::Real(_) => Err(SvError::Unsupported("real literal".into())),
            Tok::SysIdent(name) => {
                self.next();
                let mut args = vec![];
                if self.eat_op("(") {
                    while !self.is_op(")") {
                        args.push(self.parse_expr()?);
                        if !self.eat_op(",") {
                            break;
                        }
                    }
                    self.expect_op(")")?;
                }
                Ok(Expr::SysCall { name, args })
            }
            Tok::Op("(") => {
                self.next();
                let e = self.parse_expr()?;
                if self.is_op(":") {
                    return Err(SvError::Unsupported("min:typ:max expression".into()));
                }
                self.expect_op(")")?;
                // parenthesised expressions keep no node: precedence is already in the tree; but a
                // following `'(` cast needs to see the expression as a size, which Cast handles.
                Ok(e)
            }
            Tok::Op("{") => {
                self.next();
                if self.is_op("<<") || self.is_op(">>") {
                    return Err(SvError::Unsupported("streaming operator".into()));
                }
                if self.eat_op("}") {
                    return Err(SvError::Unsupported("empty concatenation".into()));
                }
                let first = self.parse_expr()?;
                if self.is_op("{") {
                    // replication
                    self.next();
                    let mut list = vec![];
                    while !self.is_op("}") {
                        list.push(self.parse_expr()?);
                        if !self.eat_op(",") {
                            break;
                        }
                    }
                    self.expect_op("}")?;
                    self.expect_op("}")?;
                    return Ok(Expr::Repl(Box::new(first), list));
                }
                let mut list = vec![first];
                while self.eat_op(",") {
                    list.push(self.parse_expr()?);
                }
                self.expect_op("}")?;
                Ok(Expr::Concat(list))
            }
            Tok::Op("'{") => {
                self.next();
                let items = self.parse_pattern_items()?;
                Ok(Expr::Pattern { ty: None, items })
            }
            Tok::Ident(k) => {
                match k.as_str() {
                    "signed" | "unsigned" if self.is_op_at(1, "'") => {
                        self.next();
                        self.expect_op("'")?;
                        self.expect_op("(")?;
                        let e = self.parse_expr()?;
                        self.expect_op(")")?;
                        return Ok(Expr::SignCast(k == "signed", Box::new(e)));
                    }
                    "null" | "this" | "super" | "new" | "tagged" => {
                        return Err(SvError::Unsupported(format!("'{k}' expression")));
                    }
                    "const" => return Err(SvError::Unsupported("const cast".into())),
                    _ => {}
                }
                if UNSUPPORTED_TYPES.contains(&k.as_str()) {
                    return Err(SvError::Unsupported(format!("type '{k}'")));
                }
                if TYPE_KEYWORDS.contains(&k.as_str()) {
                    let t = self.parse_data_type()?;
                    return Ok(Expr::Type(Box::new(t)));
                }
                if is_reserved(&k) {
                    return self.err("unexpected keyword in expression");
                }
                self.next();
                if self.is_op("::") {
                    self.next();
                    let n = self.ident()?;
                    if self.is_op("::") {
                        return Err(SvError::Unsupported("nested scope resolution".into()));
                    }
                    return Ok(Expr::Ident { pkg: Some(k), name: n });
                }
                Ok(Expr::Ident { pkg: None, name: k })
            }
            Tok::Op("$") => Err(SvError::Unsupported("'$' expression".into())),
            _ => self.err("expected expression"),
        }
    }
}

fn is_reserved(s: &str) -> bool {
    matches!(
        s,
        "module" | "endmodule" | "interface" | "endinterface" | "package" | "endpackage" | "begin" | "end"
            | "if" | "else" | "case" | "casez" | "casex" | "endcase" | "for" | "while" | "do" | "function"
            | "endfunction" | "task" | "endtask" | "assign" | "always" | "always_comb" | "always_ff"
            | "always_latch" | "initial" | "final" | "input" | "output" | "inout" | "ref" | "parameter"
            | "localparam" | "typedef" | "return" | "break" | "continue" | "default" | "inside" | "posedge"
            | "negedge" | "or" | "and" | "not" | "generate" | "endgenerate" | "genvar" | "import" | "export"
            | "modport" | "unique" | "unique0" | "priority" | "automatic" | "static" | "packed" | "logic"
            | "bit" | "reg" | "byte" | "shortint" | "int" | "longint" | "integer" | "struct" | "union"
            | "enum" | "var" | "signed" | "unsigned" | "void" | "type" | "real" | "shortreal" | "string"
            | "wire" | "tri" | "bind" | "foreach" | "repeat" | "forever" | "matches" | "dist" | "const"
            | "time" | "realtime" | "event" | "chandle" | "tagged" | "null" | "this" | "super" | "new"
            | "class" | "endclass" | "program" | "endprogram" | "property" | "endproperty" | "sequence"
            | "endsequence" | "assert" | "assume" | "cover" | "wait" | "fork" | "join" | "disable" | "force"
            | "release" | "deassign" | "defparam" | "specify" | "endspecify" | "primitive" | "endprimitive"
            | "table" | "endtable" | "config" | "endconfig" | "clocking" | "endclocking" | "covergroup"
            | "endgroup" | "checker" | "endchecker" | "virtual" | "extern" | "pure" | "local" | "protected"
            | "rand" | "randc" | "constraint" | "with" | "iff" | "supply0" | "supply1" | "wand" | "wor"
            | "tri0" | "tri1" | "uwire" | "trireg" | "alias" | "let" | "global" | "restrict"
    )
}

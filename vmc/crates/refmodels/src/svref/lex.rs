//! R2 tokenizer for the SystemVerilog subset produced by veryl's emitter.

use super::SvError;
use crate::bits::{Bit, V};

#[derive(Clone, Debug, PartialEq)]
pub enum Tok {
    Ident(String),
    /// `$name`
    SysIdent(String),
    /// integer literal: value, `sized` = an explicit size was written, `unbased` = plain decimal
    Num { v: V, sized: bool },
    /// `'0 '1 'x 'z`
    Unbased(Bit),
    Real(String),
    Str(String),
    /// operators and punctuation, longest match
    Op(&'static str),
    Eof,
}

#[derive(Clone, Debug)]
pub struct Token {
    pub tok: Tok,
    pub line: u32,
}

const OPS: &[&str] = &[
    // 4 chars
    "<<<=", ">>>=", // 3 chars
    "<<<", ">>>", "===", "!==", "==?", "!=?", "<<=", ">>=", "|->", "|=>", // 2 chars
    "**", "==", "!=", "<=", ">=", "&&", "||", "<<", ">>", "+=", "-=", "*=", "/=", "%=", "&=", "|=", "^=",
    "++", "--", "::", "~&", "~|", "~^", "^~", "+:", "-:", "'{", "->", "##", // 1 char
    "+", "-", "*", "/", "%", "!", "~", "&", "|", "^", "<", ">", "=", "?", ":", ";", ",", ".", "(", ")",
    "[", "]", "{", "}", "#", "@", "'", "$",
];

fn is_id_start(c: u8) -> bool {
    c.is_ascii_alphabetic() || c == b'_'
}
fn is_id_char(c: u8) -> bool {
    c.is_ascii_alphanumeric() || c == b'_' || c == b'$'
}

/// Minimal preprocessor: `ifdef/`ifndef/`elsif/`else/`endif with an empty define set, `define
/// lines recorded (names only). Any other directive is reported as unsupported.
fn preprocess(src: &str) -> Result<String, SvError> {
    if !src.contains('`') {
        return Ok(src.to_string());
    }
    let mut out = String::with_capacity(src.len());
    let mut defined: Vec<String> = vec![];
    // stack of (currently_active, any_branch_taken, parent_active)
    let mut stack: Vec<(bool, bool, bool)> = vec![];
    for line in src.lines() {
        let t = line.trim_start();
        let active = stack.last().map(|x| x.0).unwrap_or(true);
        if let Some(rest) = t.strip_prefix('`') {
            let mut it = rest.split_whitespace();
            let dir = it.next().unwrap_or("");
            let arg = it.next().unwrap_or("");
            match dir {
                "ifdef" | "ifndef" => {
                    let d = defined.iter().any(|x| x == arg);
                    let cond = if dir == "ifdef" { d } else { !d };
                    stack.push((active && cond, cond, active));
                }
                "elsif" => {
                    let Some(top) = stack.last_mut() else {
                        return Err(SvError::Parse("`elsif without `ifdef".into()));
                    };
                    let d = defined.iter().any(|x| x == arg);
                    let take = !top.1 && d;
                    top.0 = top.2 && take;
                    top.1 |= take;
                }
                "else" => {
                    let Some(top) = stack.last_mut() else {
                        return Err(SvError::Parse("`else without `ifdef".into()));
                    };
                    let take = !top.1;
                    top.0 = top.2 && take;
                    top.1 = true;
                }
                "endif" => {
                    if stack.pop().is_none() {
                        return Err(SvError::Parse("`endif without `ifdef".into()));
                    }
                }
                "define" => {
                    if active {
                        if it.next().is_some() {
                            return Err(SvError::Unsupported("`define with a body".into()));
                        }
                        defined.push(arg.to_string());
                    }
                }
                "undef" => {
                    if active {
                        defined.retain(|x| x != arg);
                    }
                }
                "timescale" | "default_nettype" | "resetall" => {}
                _ => {
                    if active {
                        return Err(SvError::Unsupported(format!("preprocessor directive `{dir}")));
                    }
                }
            }
            out.push('\n');
            continue;
        }
        if active {
            if t.contains('`') && !t.starts_with("//") {
                // macro use inside a line
                let code = t.split("//").next().unwrap_or("");
                if code.contains('`') {
                    return Err(SvError::Unsupported("macro usage".into()));
                }
            }
            out.push_str(line);
        }
        out.push('\n');
    }
    Ok(out)
}

pub fn lex(src: &str) -> Result<Vec<Token>, SvError> {
    let src = preprocess(src)?;
    let b = src.as_bytes();
    let mut i = 0usize;
    let mut line = 1u32;
    let mut out = Vec::new();
    macro_rules! push {
        ($t:expr) => {
            out.push(Token { tok: $t, line })
        };
    }
    while i < b.len() {
        let c = b[i];
        if c == b'\n' {
            line += 1;
            i += 1;
            continue;
        }
        if c.is_ascii_whitespace() {
            i += 1;
            continue;
        }
        // comments
        if c == b'/' && i + 1 < b.len() && b[i + 1] == b'/' {
            while i < b.len() && b[i] != b'\n' {
                i += 1;
            }
            continue;
        }
        if c == b'/' && i + 1 < b.len() && b[i + 1] == b'*' {
            i += 2;
            while i + 1 < b.len() && !(b[i] == b'*' && b[i + 1] == b'/') {
                if b[i] == b'\n' {
                    line += 1;
                }
                i += 1;
            }
            i += 2;
            continue;
        }
        // attributes (* ... *): skipped (not `(*)` as in @(*))
        if c == b'(' && i + 1 < b.len() && b[i + 1] == b'*' && !(i + 2 < b.len() && b[i + 2] == b')') {
            let mut j = i + 2;
            let mut found = None;
            while j + 1 < b.len() {
                if b[j] == b'*' && b[j + 1] == b')' {
                    found = Some(j + 2);
                    break;
                }
                if b[j] == b'\n' {
                    break;
                }
                j += 1;
            }
            if let Some(e) = found {
                i = e;
                continue;
            }
        }
        if c == b'"' {
            let mut j = i + 1;
            let mut s = String::new();
            while j < b.len() && b[j] != b'"' {
                if b[j] == b'\\' && j + 1 < b.len() {
                    s.push(b[j + 1] as char);
                    j += 2;
                } else {
                    if b[j] == b'\n' {
                        line += 1;
                    }
                    s.push(b[j] as char);
                    j += 1;
                }
            }
            push!(Tok::Str(s));
            i = j + 1;
            continue;
        }
        if c == b'\\' {
            // escaped identifier: up to whitespace
            let mut j = i + 1;
            while j < b.len() && !b[j].is_ascii_whitespace() {
                j += 1;
            }
            push!(Tok::Ident(src[i + 1..j].to_string()));
            i = j;
            continue;
        }
        if c == b'$' && i + 1 < b.len() && is_id_start(b[i + 1]) {
            let mut j = i + 1;
            while j < b.len() && is_id_char(b[j]) {
                j += 1;
            }
            push!(Tok::SysIdent(src[i..j].to_string()));
            i = j;
            continue;
        }
        if is_id_start(c) {
            let mut j = i;
            while j < b.len() && is_id_char(b[j]) {
                j += 1;
            }
            push!(Tok::Ident(src[i..j].to_string()));
            i = j;
            continue;
        }
        if c.is_ascii_digit() {
            // decimal digits (size or plain number)
            let mut j = i;
            while j < b.len() && (b[j].is_ascii_digit() || b[j] == b'_') {
                j += 1;
            }
            let digits: String = src[i..j].chars().filter(|c| *c != '_').collect();
            // real?
            if j < b.len()
                && ((b[j] == b'.' && j + 1 < b.len() && b[j + 1].is_ascii_digit())
                    || ((b[j] == b'e' || b[j] == b'E')
                        && j + 1 < b.len()
                        && (b[j + 1].is_ascii_digit() || b[j + 1] == b'+' || b[j + 1] == b'-')))
            {
                let mut k = j;
                if b[k] == b'.' {
                    k += 1;
                    while k < b.len() && (b[k].is_ascii_digit() || b[k] == b'_') {
                        k += 1;
                    }
                }
                if k < b.len() && (b[k] == b'e' || b[k] == b'E') {
                    k += 1;
                    if k < b.len() && (b[k] == b'+' || b[k] == b'-') {
                        k += 1;
                    }
                    while k < b.len() && (b[k].is_ascii_digit() || b[k] == b'_') {
                        k += 1;
                    }
                }
                push!(Tok::Real(src[i..k].to_string()));
                i = k;
                continue;
            }
            // based with size?
            let mut k = j;
            while k < b.len() && (b[k] == b' ' || b[k] == b'\t') {
                k += 1;
            }
            if k < b.len() && b[k] == b'\'' {
                if let Some((v, end)) = lex_based(b, k, Some(&digits))? {
                    push!(Tok::Num { v, sized: true });
                    i = end;
                    continue;
                }
            }
            // plain decimal: 32-bit signed (wider when it does not fit)
            let v = dec_to_v(&digits, 32, true, true)?;
            push!(Tok::Num { v, sized: false });
            i = j;
            continue;
        }
        if c == b'\'' {
            // '{  or '(  or unbased unsized or based unsized
            if i + 1 < b.len() {
                let n = b[i + 1];
                if n == b'{' {
                    push!(Tok::Op("'{"));
                    i += 2;
                    continue;
                }
                if let Some((v, end)) = lex_based(b, i, None)? {
                    push!(Tok::Num { v, sized: false });
                    i = end;
                    continue;
                }
                let bit = match n {
                    b'0' => Some(Bit::Zero),
                    b'1' => Some(Bit::One),
                    b'x' | b'X' => Some(Bit::X),
                    b'z' | b'Z' => Some(Bit::Z),
                    _ => None,
                };
                if let Some(bit) = bit {
                    // must not be followed by an identifier char (e.g. 'x1)
                    if !(i + 2 < b.len() && is_id_char(b[i + 2])) {
                        push!(Tok::Unbased(bit));
                        i += 2;
                        continue;
                    }
                }
            }
            push!(Tok::Op("'"));
            i += 1;
            continue;
        }
        // operators
        let mut matched = false;
        for op in OPS {
            let ob = op.as_bytes();
            if b.len() - i >= ob.len() && &b[i..i + ob.len()] == ob {
                push!(Tok::Op(op));
                i += ob.len();
                matched = true;
                break;
            }
        }
        if matched {
            continue;
        }
        return Err(SvError::Parse(format!("line {line}: unexpected character {:?}", c as char)));
    }
    out.push(Token { tok: Tok::Eof, line });
    Ok(out)
}

/// Parses `'[s]<base><digits>` starting at the apostrophe `b[at]`. Returns None when what follows
/// the apostrophe is not a base specifier (e.g. a cast `N'(`).
fn lex_based(b: &[u8], at: usize, size: Option<&str>) -> Result<Option<(V, usize)>, SvError> {
    let mut k = at + 1;
    let mut signed = false;
    if k < b.len() && (b[k] == b's' || b[k] == b'S') {
        signed = true;
        k += 1;
    }
    if k >= b.len() {
        return Ok(None);
    }
    let base = match b[k] {
        b'b' | b'B' => 2,
        b'o' | b'O' => 8,
        b'd' | b'D' => 10,
        b'h' | b'H' => 16,
        _ => return Ok(None),
    };
    k += 1;
    while k < b.len() && (b[k] == b' ' || b[k] == b'\t') {
        k += 1;
    }
    let start = k;
    while k < b.len() && (b[k].is_ascii_alphanumeric() || b[k] == b'_' || b[k] == b'?') {
        k += 1;
    }
    if start == k {
        return Ok(None);
    }
    let digits: String = std::str::from_utf8(&b[start..k]).unwrap().chars().filter(|c| *c != '_').collect();
    let size_n: Option<usize> = match size {
        Some(s) => Some(s.parse::<usize>().map_err(|_| SvError::Parse(format!("bad literal size {s}")))?),
        None => None,
    };
    if size_n == Some(0) {
        return Err(SvError::Parse("zero-width literal".into()));
    }
    let v = if base == 10 {
        if digits.len() == 1 && matches!(digits.as_bytes()[0], b'x' | b'X' | b'z' | b'Z' | b'?') {
            let bit = if matches!(digits.as_bytes()[0], b'x' | b'X') { Bit::X } else { Bit::Z };
            V::all(size_n.unwrap_or(32), bit, signed)
        } else {
            let w = size_n.unwrap_or(32);
            let mut v = dec_to_v(&digits, w, signed, size_n.is_none())?;
            v.signed = signed;
            v
        }
    } else {
        let per = match base {
            2 => 1,
            8 => 3,
            _ => 4,
        };
        let mut bits: Vec<Bit> = vec![];
        for ch in digits.chars().rev() {
            match ch {
                'x' | 'X' => bits.extend(std::iter::repeat(Bit::X).take(per)),
                'z' | 'Z' | '?' => bits.extend(std::iter::repeat(Bit::Z).take(per)),
                _ => {
                    let d = ch
                        .to_digit(base)
                        .ok_or_else(|| SvError::Parse(format!("bad digit {ch:?} in base-{base} literal")))?;
                    for p in 0..per {
                        bits.push(Bit::from_bool((d >> p) & 1 == 1));
                    }
                }
            }
        }
        // 5.7.1: unsized => at least 32 bits; left-pad with 0, or with x/z when the leftmost digit is x/z
        let target = match size_n {
            Some(n) => n,
            None => bits.len().max(32),
        };
        let lead = *bits.last().unwrap();
        let fill = if lead.is_xz() { lead } else { Bit::Zero };
        if bits.len() < target {
            bits.resize(target, fill);
        } else {
            bits.truncate(target);
        }
        V::new(bits, signed)
    };
    Ok(Some((v, k)))
}

/// Decimal digit string to a vector of `w` bits (grown when `grow` and the value does not fit).
fn dec_to_v(digits: &str, w: usize, signed: bool, grow: bool) -> Result<V, SvError> {
    // schoolbook: bits = bits*10 + d on a little-endian bit vector
    let mut bits: Vec<Bit> = vec![Bit::Zero];
    for ch in digits.chars() {
        let d = ch.to_digit(10).ok_or_else(|| SvError::Parse(format!("bad decimal digit {ch:?}")))?;
        // multiply by 10 = (x<<3) + (x<<1)
        let n = bits.len() + 4;
        let mut acc = vec![false; n];
        let mut carry = 0u32;
        for i in 0..n {
            let b3 = if i >= 3 && i - 3 < bits.len() && bits[i - 3] == Bit::One { 1 } else { 0 };
            let b1 = if i >= 1 && i - 1 < bits.len() && bits[i - 1] == Bit::One { 1 } else { 0 };
            let dd = if i < 4 { (d >> i) & 1 } else { 0 };
            let s = b3 + b1 + dd + carry;
            acc[i] = s & 1 == 1;
            carry = s >> 1;
        }
        while acc.len() > 1 && !*acc.last().unwrap() {
            acc.pop();
        }
        bits = acc.into_iter().map(Bit::from_bool).collect();
    }
    let mut need = bits.len();
    if signed && grow {
        need += 1; // keep a sign bit of 0 for a plain decimal number
    }
    let target = if grow { w.max(need) } else { w };
    bits.resize(target.max(bits.len()), Bit::Zero);
    bits.truncate(target);
    Ok(V::new(bits, signed))
}

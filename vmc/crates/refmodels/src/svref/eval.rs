//! R2 expression evaluation (IEEE 1800-2017 11.6 / 11.8 context-determined evaluation on top of
//! the R1 vector operations) and statement execution.

use super::SvError;
use super::ast::CaseKind;
use super::ir::*;
use crate::bits::{Bit, V};
use std::rc::Rc;

type R<T> = Result<T, SvError>;

const MAX_LOOP_ITERS: usize = 1 << 16;
const MAX_CALL_DEPTH: usize = 64;

#[derive(Clone, Debug)]
pub struct Target {
    pub loc: Loc,
    /// None = unknown / out-of-range unpacked index
    pub elem: Option<usize>,
    pub off: i64,
    pub w: usize,
    /// valid window [lo, hi) in element bit coordinates
    pub lo: i64,
    pub hi: i64,
}

#[derive(Clone, Copy, PartialEq, Eq, Debug)]
pub enum Flow {
    Normal,
    Break,
    Return,
}

pub struct Exec<'a> {
    pub funcs: &'a [Option<Rc<RFunc>>],
    pub infos: &'a [SlotInfo],
    pub globals: &'a mut Vec<Vec<V>>,
    pub frames: Vec<Vec<Vec<V>>>,
    pub fstack: Vec<Rc<RFunc>>,
    pub nba: Vec<(Target, V)>,
    /// (var, elem, value before the first write of this process run)
    pub touched: Vec<(usize, usize, V)>,
    /// constant evaluation: reading a global is an error
    pub const_mode: bool,
}

fn v_to_i64(v: &V, signed: bool) -> Option<i64> {
    if v.has_xz() {
        return None;
    }
    let w = v.width();
    let neg = signed && w > 0 && v.bits[w - 1] == Bit::One;
    let mut r: i64 = if neg { -1 } else { 0 };
    for i in 0..w.min(63) {
        let b = v.bits[i] == Bit::One;
        if b {
            r |= 1 << i;
        } else {
            r &= !(1 << i);
        }
    }
    // bits beyond 63 must agree with the sign fill, else saturate
    for i in 63..w {
        let b = v.bits[i] == Bit::One;
        if b != neg {
            return Some(if neg { i64::MIN / 2 } else { i64::MAX / 2 });
        }
    }
    Some(r)
}

pub fn const_to_i64(v: &V) -> Option<i64> {
    v_to_i64(v, v.signed)
}

fn one_bit(b: Bit) -> V {
    V::new(vec![b], false)
}

impl<'a> Exec<'a> {
    pub fn new(
        funcs: &'a [Option<Rc<RFunc>>],
        infos: &'a [SlotInfo],
        globals: &'a mut Vec<Vec<V>>,
        const_mode: bool,
    ) -> Exec<'a> {
        Exec { funcs, infos, globals, frames: vec![], fstack: vec![], nba: vec![], touched: vec![], const_mode }
    }

    // ------------------------------------------------------------------ references
    fn resolve(&mut self, r: &LRef) -> R<Target> {
        // unpacked element
        let mut elem: Option<usize> = Some(0);
        for (k, (ie, dim)) in r.elem.iter().enumerate() {
            let iv = self.eval_self(ie)?;
            match v_to_i64(&iv, ie.signed).and_then(|i| pos_from_left(*dim, i)) {
                Some(p) => {
                    if let Some(e) = elem.as_mut() {
                        *e += p * r.strides[k];
                    }
                }
                None => elem = None,
            }
        }
        let (off, w, lo, hi, valid) = self.apply_sels(&r.sels, r.base_w)?;
        Ok(Target { loc: r.loc, elem: if valid { elem } else { None }, off, w, lo, hi })
    }

    fn apply_sels(&mut self, sels: &[Sel], base_w: usize) -> R<(i64, usize, i64, i64, bool)> {
        let mut off: i64 = 0;
        let mut w: usize = base_w;
        let mut lo: i64 = 0;
        let mut hi: i64 = base_w as i64;
        let mut valid = true;
        for s in sels {
            let (noff, nw) = match s {
                Sel::Bit { idx, dim, ew } => {
                    let iv = self.eval_self(idx)?;
                    match v_to_i64(&iv, idx.signed) {
                        None => {
                            valid = false;
                            (off, *ew)
                        }
                        Some(i) => {
                            let pos = if dim.0 >= dim.1 { i.saturating_sub(dim.1) } else { dim.1.saturating_sub(i) };
                            if pos < 0 || pos >= range_len(*dim) as i64 {
                                // outside this dimension: nothing selected
                                lo = 0;
                                hi = 0;
                                (off, *ew)
                            } else {
                                (off + pos * *ew as i64, *ew)
                            }
                        }
                    }
                }
                Sel::Part { a, b, dim, ew } => {
                    let pa = if dim.0 >= dim.1 { a - dim.1 } else { dim.1 - a };
                    let pb = if dim.0 >= dim.1 { b - dim.1 } else { dim.1 - b };
                    let plo = pa.min(pb);
                    let phi = pa.max(pb);
                    (off + plo * *ew as i64, ((phi - plo + 1) as usize) * *ew)
                }
                Sel::Indexed { base, n, up, dim, ew } => {
                    let bv = self.eval_self(base)?;
                    match v_to_i64(&bv, base.signed) {
                        None => {
                            valid = false;
                            (off, n * ew)
                        }
                        Some(b) => {
                            let n_i = *n as i64;
                            let (low_idx, high_idx) =
                                if *up { (b, b.saturating_add(n_i - 1)) } else { (b.saturating_sub(n_i - 1), b) };
                            let pos_lo = if dim.0 >= dim.1 { low_idx.saturating_sub(dim.1) } else { dim.1.saturating_sub(high_idx) };
                            if pos_lo.abs() > (1 << 40) {
                                lo = 0;
                                hi = 0;
                                (off, n * ew)
                            } else {
                                (off + pos_lo * *ew as i64, n * ew)
                            }
                        }
                    }
                }
                Sel::Field { off: fo, w: fw } => (off + *fo as i64, *fw),
            };
            // clip with the region selected from and the new region
            lo = lo.max(off).max(noff);
            hi = hi.min(off + w as i64).min(noff + nw as i64);
            off = noff;
            w = nw;
        }
        Ok((off, w, lo, hi, valid))
    }

    fn read_target(&self, t: &Target) -> R<V> {
        let Some(e) = t.elem else {
            return Ok(V::all(t.w, Bit::X, false));
        };
        let elemv: &V = match t.loc {
            Loc::Global(g) => {
                if self.const_mode {
                    return Err(SvError::NotConstant(format!("variable {}", self.infos.get(g).map(|x| x.name.as_str()).unwrap_or("?"))));
                }
                &self.globals[g][e]
            }
            Loc::Local(s) => &self.frames.last().expect("frame")[s][e],
        };
        if t.off == 0 && t.w == elemv.width() && t.lo <= 0 && t.hi >= t.w as i64 {
            return Ok(V::new(elemv.bits.clone(), false));
        }
        let mut bits = Vec::with_capacity(t.w);
        for i in 0..t.w as i64 {
            let p = t.off + i;
            if p >= t.lo && p < t.hi && p >= 0 && (p as usize) < elemv.width() {
                bits.push(elemv.bits[p as usize]);
            } else {
                bits.push(Bit::X);
            }
        }
        Ok(V::new(bits, false))
    }

    fn read_lref(&mut self, r: &LRef) -> R<V> {
        let t = self.resolve(r)?;
        self.read_target(&t)
    }

    pub fn write_target(&mut self, t: &Target, v: &V) {
        let Some(e) = t.elem else { return };
        let (elemv, mask2): (&mut V, Option<Rc<Vec<bool>>>) = match t.loc {
            Loc::Global(g) => {
                if !self.touched.iter().any(|x| x.0 == g && x.1 == e) {
                    let old = self.globals[g][e].clone();
                    self.touched.push((g, e, old));
                }
                (&mut self.globals[g][e], self.infos[g].mask2.clone())
            }
            Loc::Local(s) => {
                let m = self.fstack.last().expect("function").slots[s].mask2.clone();
                let f = self.frames.last_mut().expect("frame");
                (&mut f[s][e], m)
            }
        };
        for i in 0..t.w as i64 {
            let p = t.off + i;
            if p >= t.lo && p < t.hi && p >= 0 && (p as usize) < elemv.width() {
                let mut b = v.bits.get(i as usize).copied().unwrap_or(Bit::Zero);
                if let Some(m) = &mask2 {
                    if m[p as usize] && b.is_xz() {
                        b = Bit::Zero;
                    }
                }
                elemv.bits[p as usize] = b;
            }
        }
    }

    fn store_lval(&mut self, lv: &LVal, v: &V, nb: bool) -> R<()> {
        match lv {
            LVal::Ref(r) => {
                let t = self.resolve(r)?;
                if nb {
                    self.nba.push((t, v.clone()));
                } else {
                    self.write_target(&t, v);
                }
            }
            LVal::Concat(parts) => {
                // MSB first: the last part takes the least significant bits
                let mut lo = 0usize;
                for p in parts.iter().rev() {
                    let pw = p.width();
                    let slice = V::new(
                        (0..pw).map(|i| v.bits.get(lo + i).copied().unwrap_or(Bit::Zero)).collect(),
                        false,
                    );
                    self.store_lval(p, &slice, nb)?;
                    lo += pw;
                }
            }
        }
        Ok(())
    }

    // ------------------------------------------------------------------ expressions
    pub fn eval_self(&mut self, e: &RExpr) -> R<V> {
        self.eval(e, e.w, e.signed)
    }

    /// value of `e` as the right-hand side of an assignment to a target of width `lw`
    pub fn eval_assign(&mut self, e: &RExpr, lw: usize) -> R<V> {
        let cw = lw.max(e.w);
        let mut v = self.eval(e, cw, e.signed)?;
        v.bits.truncate(lw);
        Ok(v)
    }

    /// converts a self-determined operand value (a "primary" in the sense of 11.8.2) to the
    /// propagated type: sign-extended only when the propagated type is signed
    fn leaf(v: V, w: usize, s: bool) -> V {
        let mut v = v;
        v.signed = s;
        let mut r = v.resize(w);
        r.signed = s;
        r
    }

    /// Evaluates `e` in a context of width `w` (>= e.w) and signedness `s`.
    pub fn eval(&mut self, e: &RExpr, w: usize, s: bool) -> R<V> {
        let w = w.max(e.w);
        match &e.k {
            RK::Const(v) => Ok(Self::leaf(v.clone(), w, s)),
            RK::Unbased(b) => Ok(V::all(w, *b, s)),
            RK::Read(r) => {
                let v = self.read_lref(r)?;
                Ok(Self::leaf(v, w, s))
            }
            RK::Select { base, sels } => {
                let bv = self.eval_self(base)?;
                let (off, sw, lo, hi, valid) = self.apply_sels(sels, base.w)?;
                let mut bits = Vec::with_capacity(sw);
                for i in 0..sw as i64 {
                    let p = off + i;
                    if valid && p >= lo && p < hi && p >= 0 && (p as usize) < bv.width() {
                        bits.push(bv.bits[p as usize]);
                    } else {
                        bits.push(Bit::X);
                    }
                }
                Ok(Self::leaf(V::new(bits, false), w, s))
            }
            RK::Unary(op, a) => match op {
                UnOp::Plus => {
                    let v = self.eval(a, w, s)?;
                    Ok(V::plus(&v, 0))
                }
                UnOp::Neg => {
                    let v = self.eval(a, w, s)?;
                    Ok(V::neg(&v, 0))
                }
                UnOp::Not => {
                    let v = self.eval(a, w, s)?;
                    Ok(V::bit_not(&v, 0))
                }
                UnOp::LogNot => {
                    let v = self.eval_self(a)?;
                    Ok(Self::leaf(V::log_not(&v), w, s))
                }
                _ => {
                    let v = self.eval_self(a)?;
                    let r = match op {
                        UnOp::RedAnd => v.red_and(),
                        UnOp::RedOr => v.red_or(),
                        UnOp::RedXor => v.red_xor(),
                        UnOp::RedNand => v.red_nand(),
                        UnOp::RedNor => v.red_nor(),
                        _ => v.red_xnor(),
                    };
                    Ok(Self::leaf(r, w, s))
                }
            },
            RK::Binary(op, a, b) => self.eval_binary(*op, a, b, w, s),
            RK::Cond(c, t, f) => {
                let cv = self.eval_self(c)?;
                match cv.truth() {
                    Bit::One => self.eval(t, w, s),
                    Bit::Zero => self.eval(f, w, s),
                    _ => {
                        let tv = self.eval(t, w, s)?;
                        let fv = self.eval(f, w, s)?;
                        Ok(V::cond(&cv, &tv, &fv, 0))
                    }
                }
            }
            RK::Concat(parts) => {
                let mut vs = Vec::with_capacity(parts.len());
                for p in parts {
                    vs.push(self.eval_self(p)?);
                }
                Ok(Self::leaf(V::concat(&vs), w, s))
            }
            RK::Repl(n, inner) => {
                let v = self.eval_self(inner)?;
                Ok(Self::leaf(v.repeat(*n), w, s))
            }
            RK::AssignCast { inner, mask2 } => {
                let mut v = self.eval_assign(inner, e.w)?;
                if let Some(m) = mask2 {
                    for (i, b) in v.bits.iter_mut().enumerate() {
                        if m[i] && b.is_xz() {
                            *b = Bit::Zero;
                        }
                    }
                }
                Ok(Self::leaf(v, w, s))
            }
            RK::SignCast(inner) => {
                let v = self.eval_self(inner)?;
                Ok(Self::leaf(v, w, s))
            }
            RK::Call { func, args, outs } => {
                let v = self.call(*func, args, outs)?;
                Ok(Self::leaf(v, w, s))
            }
            RK::Inside(x, items) => {
                let r = self.eval_inside(x, items)?;
                Ok(Self::leaf(one_bit(r), w, s))
            }
            RK::Clog2(a) => {
                let v = self.eval_self(a)?;
                let r = if v.has_xz() {
                    V::all(32, Bit::X, true)
                } else {
                    // ceil(log2(n)), $clog2(0) = 0; the argument is treated as unsigned
                    let top = v.bits.iter().rposition(|b| *b == Bit::One);
                    let r = match top {
                        None => 0,
                        Some(t) => {
                            let pow2 = v.bits[..t].iter().all(|b| *b == Bit::Zero);
                            if pow2 { t } else { t + 1 }
                        }
                    };
                    V::from_u128(r as u128, 32, true)
                };
                Ok(Self::leaf(r, w, s))
            }
            RK::CountOnes(a) => {
                let v = self.eval_self(a)?;
                let n = v.bits.iter().filter(|b| **b == Bit::One).count();
                Ok(Self::leaf(V::from_u128(n as u128, 32, true), w, s))
            }
            RK::OneHot(a, zero_ok) => {
                let v = self.eval_self(a)?;
                let n = v.bits.iter().filter(|b| **b == Bit::One).count();
                let r = n == 1 || (*zero_ok && n == 0);
                Ok(Self::leaf(V::from_bool(r), w, s))
            }
            RK::IsUnknown(a) => {
                let v = self.eval_self(a)?;
                Ok(Self::leaf(V::from_bool(v.has_xz()), w, s))
            }
        }
    }

    fn eval_binary(&mut self, op: BinOp, a: &RExpr, b: &RExpr, w: usize, s: bool) -> R<V> {
        use BinOp::*;
        match op {
            Add | Sub | Mul | Div | Mod | And | Or | Xor | Xnor => {
                let x = self.eval(a, w, s)?;
                let y = self.eval(b, w, s)?;
                let mut r = match op {
                    Add => V::add(&x, &y, 0),
                    Sub => V::sub(&x, &y, 0),
                    Mul => V::mul(&x, &y, 0),
                    Div => V::div(&x, &y, 0),
                    Mod => V::rem(&x, &y, 0),
                    And => V::bit_and(&x, &y, 0),
                    Or => V::bit_or(&x, &y, 0),
                    Xor => V::bit_xor(&x, &y, 0),
                    _ => V::bit_xnor(&x, &y, 0),
                };
                r.signed = s;
                Ok(r)
            }
            Shl | AShl | Shr | AShr => {
                let x = self.eval(a, w, s)?;
                let y = self.eval_self(b)?;
                let mut r = V::shift(&x, &y.with_sign(false), 0, matches!(op, Shl | AShl), op == AShr && s);
                r.signed = s;
                Ok(r)
            }
            Pow => {
                let x = self.eval(a, w, s)?;
                let y = self.eval_self(b)?;
                Ok(pow(&x, &y, b.signed, s))
            }
            Lt | Le | Gt | Ge | Eq | Ne | CaseEq | CaseNe | WildEq | WildNe => {
                let cw = a.w.max(b.w);
                let cs = a.signed && b.signed;
                let x = self.eval(a, cw, cs)?;
                let y = self.eval(b, cw, cs)?;
                let r = match op {
                    Lt => V::lt(&x, &y).bits[0],
                    Le => V::le(&x, &y).bits[0],
                    Gt => V::gt(&x, &y).bits[0],
                    Ge => V::ge(&x, &y).bits[0],
                    Eq => V::eq2(&x, &y).1,
                    Ne => V::eq2(&x, &y).1.not(),
                    CaseEq => V::case_eq(&x, &y).bits[0],
                    CaseNe => V::case_eq(&x, &y).bits[0].not(),
                    WildEq => V::wild_eq2(&x, &y).1,
                    _ => V::wild_eq2(&x, &y).1.not(),
                };
                Ok(Self::leaf(one_bit(r), w, s))
            }
            LogAnd => {
                let x = self.eval_self(a)?.truth();
                if x == Bit::Zero {
                    return Ok(Self::leaf(one_bit(Bit::Zero), w, s));
                }
                let y = self.eval_self(b)?.truth();
                Ok(Self::leaf(one_bit(x.and(y)), w, s))
            }
            LogOr => {
                let x = self.eval_self(a)?.truth();
                if x == Bit::One {
                    return Ok(Self::leaf(one_bit(Bit::One), w, s));
                }
                let y = self.eval_self(b)?.truth();
                Ok(Self::leaf(one_bit(x.or(y)), w, s))
            }
        }
    }

    /// 11.4.13 set membership: values use ==? (x/z in the set member are wildcards), ranges are
    /// inclusive; the result is the OR of the individual comparisons.
    fn eval_inside(&mut self, x: &RExpr, items: &[RInside]) -> R<Bit> {
        let mut acc = Bit::Zero;
        for it in items {
            let r = match it {
                RInside::Value(v) => {
                    let cw = x.w.max(v.w);
                    let cs = x.signed && v.signed;
                    let xv = self.eval(x, cw, cs)?;
                    let vv = self.eval(v, cw, cs)?;
                    V::wild_eq2(&xv, &vv).1
                }
                RInside::Range(lo, hi) => {
                    let cw = x.w.max(lo.w);
                    let cs = x.signed && lo.signed;
                    let xv = self.eval(x, cw, cs)?;
                    let lv = self.eval(lo, cw, cs)?;
                    let ge = V::ge(&xv, &lv).bits[0];
                    let cw = x.w.max(hi.w);
                    let cs = x.signed && hi.signed;
                    let xv = self.eval(x, cw, cs)?;
                    let hv = self.eval(hi, cw, cs)?;
                    let le = V::le(&xv, &hv).bits[0];
                    ge.and(le)
                }
            };
            acc = acc.or(r);
            if acc == Bit::One {
                break;
            }
        }
        Ok(acc)
    }

    fn call(&mut self, fid: usize, args: &[RExpr], outs: &[(usize, LVal)]) -> R<V> {
        let f = self.funcs.get(fid).and_then(|x| x.clone()).ok_or_else(|| SvError::Elab("call of a function that is still being elaborated".into()))?;
        if self.frames.len() >= MAX_CALL_DEPTH {
            return Err(SvError::Runtime("function call depth exceeded".into()));
        }
        // evaluate arguments in the caller's frame
        let mut vals = Vec::with_capacity(args.len());
        for (i, a) in args.iter().enumerate() {
            let slot = f.inputs[i];
            vals.push(self.eval_assign(a, f.slots[slot].w)?);
        }
        let mut frame: Vec<Vec<V>> = f.slots.iter().map(|s| vec![s.default_elem(); s.elems]).collect();
        for (i, v) in vals.into_iter().enumerate() {
            let slot = f.inputs[i];
            let mut v = V::new(v.bits, false);
            if let Some(m) = &f.slots[slot].mask2 {
                for (k, b) in v.bits.iter_mut().enumerate() {
                    if m[k] && b.is_xz() {
                        *b = Bit::Zero;
                    }
                }
            }
            frame[slot][0] = v;
        }
        self.frames.push(frame);
        self.fstack.push(f.clone());
        let r = self.exec(&f.body);
        let frame = self.frames.pop().unwrap();
        self.fstack.pop();
        r?;
        // copy outputs back (caller's frame is current again)
        for (slot, lv) in outs {
            let v = frame[*slot][0].clone();
            let mut v2 = v;
            v2.bits.resize(lv.width(), Bit::Zero);
            self.store_lval(lv, &v2, false)?;
        }
        Ok(match f.ret {
            Some(r) => {
                let mut v = frame[r][0].clone();
                if let Some(m) = &f.slots[r].mask2 {
                    for (i, b) in v.bits.iter_mut().enumerate() {
                        if m[i] && b.is_xz() {
                            *b = Bit::Zero;
                        }
                    }
                }
                v
            }
            None => V::zeros(1, false),
        })
    }

    // ------------------------------------------------------------------ statements
    pub fn exec(&mut self, s: &RStmt) -> R<Flow> {
        match s {
            RStmt::Null => Ok(Flow::Normal),
            RStmt::Block(items) => {
                for it in items {
                    let f = self.exec(it)?;
                    if f != Flow::Normal {
                        return Ok(f);
                    }
                }
                Ok(Flow::Normal)
            }
            RStmt::Assign { pairs, nb } => {
                if pairs.len() == 1 {
                    let (lv, rhs) = &pairs[0];
                    let v = self.eval_assign(rhs, lv.width())?;
                    self.store_lval(lv, &v, *nb)?;
                } else {
                    let mut vals = Vec::with_capacity(pairs.len());
                    for (lv, rhs) in pairs {
                        vals.push(self.eval_assign(rhs, lv.width())?);
                    }
                    for ((lv, _), v) in pairs.iter().zip(vals.iter()) {
                        self.store_lval(lv, v, *nb)?;
                    }
                }
                Ok(Flow::Normal)
            }
            RStmt::If(c, t, e) => {
                let cv = self.eval_self(c)?;
                if cv.truth() == Bit::One {
                    self.exec(t)
                } else if let Some(e) = e {
                    self.exec(e)
                } else {
                    Ok(Flow::Normal)
                }
            }
            RStmt::Case { kind, expr, items, default, cw, cs } => {
                for (labels, body) in items {
                    for l in labels {
                        let m = match (kind, l) {
                            (CaseKind::Inside, _) => self.eval_inside(expr, std::slice::from_ref(l))? == Bit::One,
                            (_, RInside::Value(v)) => {
                                let x = self.eval(expr, *cw, *cs)?;
                                let y = self.eval(v, *cw, *cs)?;
                                case_match(*kind, &x, &y)
                            }
                            (_, RInside::Range(..)) => false,
                        };
                        if m {
                            return self.exec(body);
                        }
                    }
                }
                if let Some(d) = default { self.exec(d) } else { Ok(Flow::Normal) }
            }
            RStmt::For { init, cond, step, body } => {
                self.exec(init)?;
                let mut n = 0usize;
                loop {
                    let c = self.eval_self(cond)?;
                    if c.truth() != Bit::One {
                        break;
                    }
                    match self.exec(body)? {
                        Flow::Break => break,
                        Flow::Return => return Ok(Flow::Return),
                        Flow::Normal => {}
                    }
                    self.exec(step)?;
                    n += 1;
                    if n > MAX_LOOP_ITERS {
                        return Err(SvError::Runtime("for loop iteration cap exceeded".into()));
                    }
                }
                Ok(Flow::Normal)
            }
            RStmt::Break => Ok(Flow::Break),
            RStmt::Return => Ok(Flow::Return),
            RStmt::Eval(e) => {
                self.eval_self(e)?;
                Ok(Flow::Normal)
            }
            RStmt::InitLocal(_slot) => {
                // automatic locals are initialised when the frame is created; a declaration inside a
                // loop body is re-initialised each time it is executed
                Ok(Flow::Normal)
            }
        }
    }
}

fn case_match(kind: CaseKind, x: &V, y: &V) -> bool {
    x.bits.iter().zip(y.bits.iter()).all(|(a, b)| match kind {
        CaseKind::CaseZ => *a == Bit::Z || *b == Bit::Z || a == b,
        CaseKind::CaseX => a.is_xz() || b.is_xz() || a == b,
        _ => a == b,
    })
}

/// 11.4.3 power operator. `x` is the base already extended to the result width with the result
/// signedness `s`; `y` is the self-determined exponent, negative only when `y_signed`.
fn pow(x: &V, y: &V, y_signed: bool, s: bool) -> V {
    let w = x.width();
    if x.has_xz() || y.has_xz() {
        return V::all(w, Bit::X, s);
    }
    let one = V::from_u128(1, w, s);
    if y.is_zero() {
        return one;
    }
    let y_neg = y_signed && y.msb() == Bit::One;
    if y_neg {
        // Table 11-4
        if x.is_zero() {
            return V::all(w, Bit::X, s);
        }
        if x.bits == one.bits {
            return one;
        }
        let minus_one = s && x.bits.iter().all(|b| *b == Bit::One);
        if minus_one {
            return if y.bits[0] == Bit::Zero { one } else { x.clone() };
        }
        return V::zeros(w, s);
    }
    let mut result = one;
    let mut base = x.clone();
    for i in 0..y.width() {
        if y.bits[i] == Bit::One {
            result = V::mul(&result, &base, 0);
        }
        if i + 1 < y.width() {
            base = V::mul(&base, &base, 0);
        }
    }
    result.signed = s;
    result
}

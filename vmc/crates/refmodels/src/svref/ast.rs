//! R2 abstract syntax.

use crate::bits::{Bit, V};
use std::rc::Rc;

#[derive(Clone, Debug)]
pub enum Expr {
    Num { v: V, sized: bool },
    Unbased(Bit),
    Str(String),
    /// `a`, `pkg::a`, `pkg::T`
    Ident { pkg: Option<String>, name: String },
    Unary(&'static str, Box<Expr>),
    Binary(&'static str, Box<Expr>, Box<Expr>),
    Cond(Box<Expr>, Box<Expr>, Box<Expr>),
    Concat(Vec<Expr>),
    Repl(Box<Expr>, Vec<Expr>),
    Index(Box<Expr>, Box<Expr>),
    /// `a[h:l]`
    Range(Box<Expr>, Box<Expr>, Box<Expr>),
    /// `a[b +: w]` (up = true) / `a[b -: w]`
    IndexedRange(Box<Expr>, Box<Expr>, Box<Expr>, bool),
    Member(Box<Expr>, String),
    Call { func: Box<Expr>, args: Vec<Arg> },
    SysCall { name: String, args: Vec<Expr> },
    /// `N'(e)`, `T'(e)`
    Cast(Box<Expr>, Box<Expr>),
    SignCast(bool, Box<Expr>),
    Inside(Box<Expr>, Vec<InsideItem>),
    /// `'{...}` optionally prefixed by a type
    Pattern { ty: Option<Box<Expr>>, items: Vec<PatItem> },
    /// a data type in expression position (`$bits(logic [3:0])`, `logic'(x)`)
    Type(Box<DataType>),
}

#[derive(Clone, Debug)]
pub enum PatItem {
    Pos(Expr),
    Named(String, Expr),
    Default(Expr),
    Repl(Expr, Vec<Expr>),
}

#[derive(Clone, Debug)]
pub struct Arg {
    pub name: Option<String>,
    pub expr: Option<Expr>,
}

#[derive(Clone, Debug)]
pub enum InsideItem {
    Value(Expr),
    Range(Expr, Expr),
}

#[derive(Clone, Debug)]
pub struct Dim {
    /// `[msb:lsb]` or `[n]` (size form, lsb = None)
    pub a: Expr,
    pub b: Option<Expr>,
}

#[derive(Clone, Debug)]
pub enum TypeBase {
    /// logic / bit / reg
    Bits { two_state: bool },
    /// byte(8) shortint(16) int(32) longint(64) integer(32, 4-state)
    Int { width: usize, two_state: bool },
    Named { pkg: Option<String>, name: String },
    Struct { union: bool, fields: Vec<(DataType, String)> },
    Enum { base: Option<Box<DataType>>, members: Vec<(String, Option<Expr>)> },
    Void,
    /// `type` (type parameter)
    TypeParam,
    /// no explicit type (implicit logic or inferred from a parameter's value)
    Implicit,
}

#[derive(Clone, Debug)]
pub struct DataType {
    pub base: TypeBase,
    /// None = default for the base, Some(true) = signed
    pub signed: Option<bool>,
    pub packed: Vec<Dim>,
}

#[derive(Clone, Debug)]
pub struct VarDecl {
    pub ty: DataType,
    pub name: String,
    pub unpacked: Vec<Dim>,
    pub init: Option<Expr>,
}

#[derive(Clone, Debug)]
pub struct ParamDecl {
    pub local: bool,
    pub ty: DataType,
    pub name: String,
    pub unpacked: Vec<Dim>,
    pub value: Option<Expr>,
}

#[derive(Clone, Copy, Debug, PartialEq, Eq)]
pub enum Dir {
    Input,
    Output,
    Inout,
}

#[derive(Clone, Debug)]
pub enum PortKind {
    Var { dir: Dir, ty: DataType, unpacked: Vec<Dim>, default: Option<Expr> },
    /// `Iface.modport name` / `interface name` / `interface.modport name`
    Interface { iface: Option<String>, modport: Option<String> },
}

#[derive(Clone, Debug)]
pub struct Port {
    pub name: String,
    pub kind: PortKind,
}

#[derive(Clone, Debug)]
pub struct FuncDecl {
    pub name: String,
    pub ret: DataType,
    pub ports: Vec<(Dir, DataType, String, Vec<Dim>)>,
    pub body: Vec<Stmt>,
}

#[derive(Clone, Debug)]
pub enum Stmt {
    Block { name: Option<String>, items: Vec<Stmt> },
    VarDecl(VarDecl),
    ParamDecl(ParamDecl),
    /// op: "=" or a compound operator like "+="; nb: non-blocking
    Assign { lhs: Expr, op: &'static str, rhs: Expr, nb: bool },
    /// `i++` / `i--`
    IncDec { lhs: Expr, inc: bool },
    If { cond: Expr, then_s: Box<Stmt>, else_s: Option<Box<Stmt>> },
    Case { kind: CaseKind, expr: Expr, items: Vec<CaseItem> },
    For { init: Box<Stmt>, cond: Expr, step: Box<Stmt>, body: Box<Stmt> },
    Break,
    Return(Option<Expr>),
    Expr(Expr),
    Null,
}

#[derive(Clone, Copy, Debug, PartialEq, Eq)]
pub enum CaseKind {
    Case,
    CaseZ,
    CaseX,
    Inside,
}

#[derive(Clone, Debug)]
pub struct CaseItem {
    /// empty = default
    pub labels: Vec<InsideItem>,
    pub body: Stmt,
}

#[derive(Clone, Debug)]
pub struct Edge {
    pub posedge: bool,
    pub signal: Expr,
}

#[derive(Clone, Debug)]
pub struct InstDecl {
    pub module: String,
    pub params: Vec<(String, Option<Expr>)>,
    pub name: String,
    pub array: Vec<Dim>,
    pub conns: Vec<(String, Option<Expr>)>,
    pub line: u32,
}

#[derive(Clone, Debug)]
pub enum Item {
    Param(ParamDecl),
    Var(VarDecl),
    Typedef { ty: DataType, name: String, unpacked: Vec<Dim> },
    Func(Rc<FuncDecl>),
    Assign { lhs: Expr, rhs: Expr },
    AlwaysComb(Stmt),
    AlwaysFf { edges: Vec<Edge>, body: Stmt },
    Inst(InstDecl),
    GenFor { var: String, init: Expr, cond: Expr, step: Box<Stmt>, label: Option<String>, items: Vec<Item> },
    GenIf { cond: Expr, label: Option<String>, then_items: Vec<Item>, else_items: Option<Vec<Item>> },
    /// `begin :name ... end` at module level
    GenBlock { label: Option<String>, items: Vec<Item> },
    Import { pkg: String, name: Option<String> },
    Modport { name: String, ports: Vec<(String, String)> },
    /// recognised but outside the simulated subset (initial/final/bind/...); elaboration of a
    /// scope containing it answers Unsupported
    Unsupported(String),
}

#[derive(Clone, Copy, Debug, PartialEq, Eq)]
pub enum UnitKind {
    Module,
    Interface,
    Package,
}

#[derive(Clone, Debug)]
pub struct Unit {
    pub kind: UnitKind,
    pub name: String,
    pub params: Vec<ParamDecl>,
    pub ports: Vec<Port>,
    pub items: Vec<Item>,
}

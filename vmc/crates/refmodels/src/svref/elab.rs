//! R2 elaborator, part 1: scopes, types, parameters, hierarchy, generate, processes.
//! (Expressions and statements are in `elab_expr.rs`.)

use super::SvError;
use super::ast::*;
use super::eval::{Exec, const_to_i64};
use super::ir::*;
use crate::bits::{Bit, V};
use std::collections::{BTreeSet, HashMap};
use std::rc::Rc;

#[path = "elab_expr.rs"]
mod elab_expr;

pub(crate) type R<T> = Result<T, SvError>;

const MAX_GEN_ITERS: usize = 4096;
const MAX_INST_DEPTH: usize = 32;

#[derive(Clone, Debug)]
pub(crate) enum Sym {
    Param { v: V, ty: Ty },
    Type(Ty),
    Var { loc: Loc, ty: Ty },
    Func(Rc<FuncDecl>, usize),
    Scope(usize),
    /// instance array (interfaces): dims + flattened scopes (row-major, left index first)
    ScopeArr(Rc<(Vec<Range>, Vec<usize>)>),
    /// generate-for block: genvar value -> scope
    GenArr(Rc<HashMap<i64, usize>>),
}

pub(crate) struct Scope {
    pub parent: Option<usize>,
    pub syms: HashMap<String, Sym>,
    pub imports: Vec<usize>,
    pub path: String,
}

pub(crate) struct FuncCtx {
    pub slots: Vec<SlotInfo>,
    pub slot_tys: Vec<Ty>,
    /// return slot and type (None for void)
    pub ret: Option<(usize, Ty)>,
}

enum Deferred {
    Assign { scope: usize, lhs: Expr, rhs: Expr },
    Comb { scope: usize, body: Stmt, name: String },
    Ff { scope: usize, edges: Vec<Edge>, body: Stmt, name: String },
    Conn { parent: usize, child: usize, inst: InstDecl, unit: Rc<Unit> },
}

pub struct Elab {
    units: HashMap<String, Rc<Unit>>,
    pub(crate) scopes: Vec<Scope>,
    pkg_scopes: HashMap<String, usize>,
    pkg_busy: BTreeSet<String>,
    pub infos: Vec<SlotInfo>,
    pub var_tys: Vec<Ty>,
    pub funcs: Vec<Option<Rc<RFunc>>>,
    pub(crate) func_ids: HashMap<(usize, String), usize>,
    pub procs: Vec<Proc>,
    pub ports: Vec<PortInfo>,
    pub(crate) fctx: Option<FuncCtx>,
    deferred: Vec<Deferred>,
    proc_counter: usize,
    depth: usize,
}

pub fn elaborate(units: Vec<Unit>, top: &str) -> R<Elab> {
    let mut map = HashMap::new();
    for u in units {
        if map.contains_key(&u.name) {
            return Err(SvError::Elab(format!("duplicate definition of {}", u.name)));
        }
        map.insert(u.name.clone(), Rc::new(u));
    }
    let mut e = Elab {
        units: map,
        scopes: vec![],
        pkg_scopes: HashMap::new(),
        pkg_busy: BTreeSet::new(),
        infos: vec![],
        var_tys: vec![],
        funcs: vec![],
        func_ids: HashMap::new(),
        procs: vec![],
        ports: vec![],
        fctx: None,
        deferred: vec![],
        proc_counter: 0,
        depth: 0,
    };
    let unit = e.units.get(top).cloned().ok_or_else(|| SvError::Elab(format!("top module {top} not found")))?;
    if unit.kind != UnitKind::Module {
        return Err(SvError::Elab(format!("{top} is not a module")));
    }
    let scope = e.new_scope(None, String::new());
    e.elab_unit(&unit, scope, &[], None, true)?;
    // second pass: processes and connections
    let deferred = std::mem::take(&mut e.deferred);
    for d in deferred {
        e.elab_deferred(d)?;
    }
    if !e.deferred.is_empty() {
        return Err(SvError::Elab("internal: deferred work created in pass 2".into()));
    }
    // read sets of combinational processes
    let funcs = e.funcs.clone();
    for p in e.procs.iter_mut() {
        if let Proc::Comb { body, reads, .. } = p {
            let mut set = BTreeSet::new();
            let mut seen = BTreeSet::new();
            collect_reads_stmt(body, &funcs, &mut set, &mut seen);
            *reads = set.into_iter().collect();
        }
    }
    Ok(e)
}

impl Elab {
    pub(crate) fn new_scope(&mut self, parent: Option<usize>, path: String) -> usize {
        self.scopes.push(Scope { parent, syms: HashMap::new(), imports: vec![], path });
        self.scopes.len() - 1
    }

    pub(crate) fn child_path(&self, scope: usize, name: &str) -> String {
        let p = &self.scopes[scope].path;
        if p.is_empty() { name.to_string() } else { format!("{p}.{name}") }
    }

    pub(crate) fn define(&mut self, scope: usize, name: &str, sym: Sym) -> R<()> {
        if self.scopes[scope].syms.contains_key(name) {
            // redeclaration (explicit import followed by a local declaration is tolerated: local wins)
            if matches!(sym, Sym::Param { .. } | Sym::Var { .. } | Sym::Type(_) | Sym::Func(..)) {
                self.scopes[scope].syms.insert(name.to_string(), sym);
                return Ok(());
            }
            return Err(SvError::Elab(format!("duplicate name {name} in scope '{}'", self.scopes[scope].path)));
        }
        self.scopes[scope].syms.insert(name.to_string(), sym);
        Ok(())
    }

    pub(crate) fn lookup(&self, scope: usize, name: &str) -> Option<Sym> {
        let mut s = Some(scope);
        while let Some(id) = s {
            let sc = &self.scopes[id];
            if let Some(x) = sc.syms.get(name) {
                return Some(x.clone());
            }
            for &p in &sc.imports {
                if let Some(x) = self.scopes[p].syms.get(name) {
                    if matches!(x, Sym::Param { .. } | Sym::Type(_) | Sym::Func(..)) {
                        return Some(x.clone());
                    }
                }
            }
            s = sc.parent;
        }
        None
    }

    pub(crate) fn package(&mut self, name: &str) -> R<usize> {
        if let Some(&s) = self.pkg_scopes.get(name) {
            return Ok(s);
        }
        let unit = self
            .units
            .get(name)
            .cloned()
            .ok_or_else(|| SvError::Unsupported(format!("reference to unknown package {name}")))?;
        if unit.kind != UnitKind::Package {
            return Err(SvError::Unsupported(format!("scope resolution into non-package {name}")));
        }
        if !self.pkg_busy.insert(name.to_string()) {
            return Err(SvError::Unsupported(format!("recursive package reference through {name}")));
        }
        let scope = self.new_scope(None, name.to_string());
        // visible to self-references (`pkg::name` inside pkg) while being elaborated
        self.pkg_scopes.insert(name.to_string(), scope);
        let saved_f = self.fctx.take();
        let r = self.elab_unit(&unit, scope, &[], None, false);
        self.fctx = saved_f;
        self.pkg_busy.remove(name);
        r?;
        Ok(scope)
    }

    // ------------------------------------------------------------------ variables
    pub(crate) fn new_global(&mut self, name: String, ty: &Ty) -> usize {
        let info = SlotInfo { name, w: ty.packed_width(), elems: ty.elem_count(), mask2: ty.two_state_mask() };
        self.infos.push(info);
        self.var_tys.push(ty.clone());
        self.infos.len() - 1
    }

    pub(crate) fn new_local(&mut self, name: String, ty: &Ty) -> usize {
        let f = self.fctx.as_mut().expect("function context");
        f.slots.push(SlotInfo { name, w: ty.packed_width(), elems: ty.elem_count(), mask2: ty.two_state_mask() });
        f.slot_tys.push(ty.clone());
        f.slots.len() - 1
    }

    // ------------------------------------------------------------------ types
    pub(crate) fn resolve_dims(&mut self, dims: &[Dim], scope: usize, unpacked: bool) -> R<Vec<Range>> {
        let mut out = vec![];
        for d in dims {
            let a = self.const_i64(&d.a, scope)?;
            match &d.b {
                Some(b) => {
                    let b = self.const_i64(b, scope)?;
                    out.push((a, b));
                }
                None => {
                    if !unpacked {
                        return Err(SvError::Elab("packed dimension without a range".into()));
                    }
                    if a <= 0 {
                        return Err(SvError::Elab("array size must be positive".into()));
                    }
                    out.push((0, a - 1));
                }
            }
            let last = *out.last().unwrap();
            if range_len(last) > (1 << 20) {
                return Err(SvError::Unsupported("dimension larger than 2^20".into()));
            }
        }
        Ok(out)
    }

    pub(crate) fn resolve_type(&mut self, dt: &DataType, scope: usize) -> R<Ty> {
        let packed = self.resolve_dims(&dt.packed, scope, false)?;
        let mut ty = match &dt.base {
            TypeBase::Bits { two_state } => Ty {
                kind: TyKind::Bits,
                signed: dt.signed.unwrap_or(false),
                two_state: *two_state,
                packed: vec![],
                unpacked: vec![],
                void: false,
            },
            TypeBase::Implicit => Ty {
                kind: TyKind::Bits,
                signed: dt.signed.unwrap_or(false),
                two_state: false,
                packed: vec![],
                unpacked: vec![],
                void: false,
            },
            TypeBase::Int { width, two_state } => Ty {
                kind: TyKind::Bits,
                signed: dt.signed.unwrap_or(true),
                two_state: *two_state,
                packed: vec![(*width as i64 - 1, 0)],
                unpacked: vec![],
                void: false,
            },
            TypeBase::Void => Ty { kind: TyKind::Bits, signed: false, two_state: false, packed: vec![], unpacked: vec![], void: true },
            TypeBase::TypeParam => return Err(SvError::Elab("'type' used as a data type".into())),
            TypeBase::Named { pkg, name } => {
                let sym = match pkg {
                    Some(p) => {
                        let ps = self.package(p)?;
                        self.scopes[ps].syms.get(name).cloned()
                    }
                    None => self.lookup(scope, name),
                };
                match sym {
                    Some(Sym::Type(t)) => {
                        let mut t = t;
                        if let Some(s) = dt.signed {
                            t.signed = s;
                        }
                        t
                    }
                    Some(_) => return Err(SvError::Elab(format!("{name} is not a type"))),
                    None => return Err(SvError::Elab(format!("unknown type {name}"))),
                }
            }
            TypeBase::Struct { union, fields } => {
                let mut fs = vec![];
                let mut width = 0usize;
                for (fdt, fname) in fields {
                    let ft = self.resolve_type(fdt, scope)?;
                    if !ft.unpacked.is_empty() {
                        return Err(SvError::Unsupported("unpacked member in a packed struct".into()));
                    }
                    let fw = ft.packed_width();
                    if *union {
                        if width != 0 && width != fw {
                            return Err(SvError::Elab("packed union members of different widths".into()));
                        }
                        width = fw;
                    } else {
                        width += fw;
                    }
                    fs.push((fname.clone(), ft));
                }
                Ty {
                    kind: TyKind::Struct(Rc::new(StructDef { union: *union, fields: fs, width })),
                    signed: dt.signed.unwrap_or(false),
                    two_state: false,
                    packed: vec![],
                    unpacked: vec![],
                    void: false,
                }
            }
            TypeBase::Enum { base, members } => {
                let bt = match base {
                    Some(b) => self.resolve_type(b, scope)?,
                    None => Ty::int(),
                };
                if !matches!(bt.kind, TyKind::Bits) || bt.packed.len() > 1 {
                    return Err(SvError::Unsupported("enum base type that is not a simple vector".into()));
                }
                let w = bt.packed_width();
                let mut ms: Vec<(String, V)> = vec![];
                let mut next: Option<V> = Some(V::zeros(w, bt.signed));
                // members are defined one by one so later values may refer to earlier members
                for (mname, mval) in members {
                    let v = match mval {
                        Some(e) => {
                            let te = self.elab_expr(e, scope)?;
                            let mut v = self.const_value_assign(&te.e, w)?;
                            v.signed = bt.signed;
                            v
                        }
                        None => next.clone().ok_or_else(|| SvError::Elab("enum value after x/z needs an explicit value".into()))?,
                    };
                    next = if v.has_xz() {
                        None
                    } else {
                        let mut n = V::add(&v.with_sign(false), &V::from_u128(1, w, false), 0);
                        n.signed = bt.signed;
                        Some(n)
                    };
                    ms.push((mname.clone(), v.clone()));
                    // provisional constant with the base type; retyped below
                    self.scopes[scope].syms.insert(mname.clone(), Sym::Param { v, ty: bt.clone() });
                }
                let def = Rc::new(EnumDef { width: w, signed: bt.signed, two_state: bt.two_state, members: ms.clone() });
                let ety = Ty { kind: TyKind::Enum(def), signed: bt.signed, two_state: bt.two_state, packed: vec![], unpacked: vec![], void: false };
                for (mname, v) in ms {
                    self.scopes[scope].syms.insert(mname, Sym::Param { v, ty: ety.clone() });
                }
                ety
            }
        };
        // new packed dimensions go outside the existing ones
        if !packed.is_empty() {
            if !ty.unpacked.is_empty() {
                return Err(SvError::Unsupported("packed dimensions on an unpacked array type".into()));
            }
            let mut p = packed;
            p.extend(ty.packed.iter().cloned());
            ty.packed = p;
        }
        Ok(ty)
    }

    /// type of a declarator: base type plus the declarator's unpacked dimensions (outside any
    /// unpacked dimensions of a typedef)
    pub(crate) fn decl_type(&mut self, dt: &DataType, unpacked: &[Dim], scope: usize) -> R<Ty> {
        let mut ty = self.resolve_type(dt, scope)?;
        if !unpacked.is_empty() {
            let mut u = self.resolve_dims(unpacked, scope, true)?;
            u.extend(ty.unpacked.iter().cloned());
            ty.unpacked = u;
        }
        if ty.void {
            return Err(SvError::Elab("void variable".into()));
        }
        if ty.elem_count() * ty.packed_width().max(1) > (1 << 22) {
            return Err(SvError::Unsupported("variable larger than 2^22 bits".into()));
        }
        Ok(ty)
    }

    // ------------------------------------------------------------------ constants
    pub(crate) fn const_value(&mut self, e: &RExpr) -> R<V> {
        let mut g: Vec<Vec<V>> = vec![];
        let mut ex = Exec::new(&self.funcs, &self.infos, &mut g, true);
        ex.eval_self(e)
    }
    pub(crate) fn const_value_assign(&mut self, e: &RExpr, w: usize) -> R<V> {
        let mut g: Vec<Vec<V>> = vec![];
        let mut ex = Exec::new(&self.funcs, &self.infos, &mut g, true);
        ex.eval_assign(e, w)
    }
    pub(crate) fn const_eval(&mut self, e: &Expr, scope: usize) -> R<V> {
        let te = self.elab_expr(e, scope)?;
        let mut v = self.const_value(&te.e)?;
        v.signed = te.e.signed;
        Ok(v)
    }
    pub(crate) fn const_i64(&mut self, e: &Expr, scope: usize) -> R<i64> {
        let v = self.const_eval(e, scope)?;
        const_to_i64(&v).ok_or_else(|| SvError::Elab("x/z in a constant integer expression".into()))
    }

    // ------------------------------------------------------------------ units
    /// Elaborates parameters, ports and items of `unit` into `scope`.
    /// `overrides`: parameter overrides already evaluated in the parent: (name, Either value or type).
    fn elab_unit(
        &mut self,
        unit: &Rc<Unit>,
        scope: usize,
        overrides: &[(String, ParamOverride)],
        conns: Option<(&InstDecl, usize)>,
        is_top: bool,
    ) -> R<()> {
        self.depth += 1;
        if self.depth > MAX_INST_DEPTH {
            return Err(SvError::Unsupported("instance nesting deeper than 32 (recursive instantiation?)".into()));
        }
        for (n, _) in overrides {
            let known = unit.params.iter().any(|p| &p.name == n && !p.local)
                || unit.items.iter().any(|i| matches!(i, Item::Param(p) if &p.name == n && !p.local));
            if !known {
                return Err(SvError::Elab(format!("parameter {n} not found in {}", unit.name)));
            }
        }
        // header imports come first in `items` (the parser puts them there): handle all imports
        // that precede the first non-import item before parameters and ports
        self.pre_imports(unit, scope)?;
        for p in &unit.params {
            let ov = overrides.iter().find(|(n, _)| n == &p.name).map(|x| &x.1);
            self.elab_param(p, scope, ov)?;
        }
        // ports
        for port in &unit.ports {
            match &port.kind {
                PortKind::Var { dir, ty, unpacked, default: _ } => {
                    if *dir == Dir::Inout {
                        return Err(SvError::Unsupported("inout port".into()));
                    }
                    let t = self.decl_type(ty, unpacked, scope)?;
                    let name = self.child_path(scope, &port.name);
                    let g = self.new_global(name, &t);
                    self.define(scope, &port.name, Sym::Var { loc: Loc::Global(g), ty: t.clone() })?;
                    if is_top {
                        if !t.unpacked.is_empty() {
                            return Err(SvError::Unsupported("unpacked array port on the top module".into()));
                        }
                        self.ports.push(PortInfo {
                            name: port.name.clone(),
                            dir: if *dir == Dir::Input { PortDir::Input } else { PortDir::Output },
                            var: g,
                            width: t.packed_width(),
                            signed: t.is_signed(),
                        });
                    }
                }
                PortKind::Interface { .. } => {
                    if is_top {
                        return Err(SvError::Unsupported("interface port on the top module".into()));
                    }
                    // alias to the connected interface instance
                    let (inst, parent) = conns.ok_or_else(|| SvError::Elab("interface port without connection".into()))?;
                    let c = inst.conns.iter().find(|(n, _)| n == &port.name);
                    let Some((_, Some(expr))) = c else {
                        return Err(SvError::Unsupported("unconnected interface port".into()));
                    };
                    match self.elab_ref_scope(expr, parent)? {
                        Some(sym @ Sym::Scope(_)) => self.define(scope, &port.name, sym)?,
                        Some(Sym::ScopeArr(_)) => return Err(SvError::Unsupported("interface array port connection".into())),
                        _ => return Err(SvError::Elab(format!("port {} must be connected to an interface instance", port.name))),
                    }
                }
            }
        }
        let items: Vec<Item> = unit.items.clone();
        self.elab_items(&items, scope, overrides)?;
        self.depth -= 1;
        Ok(())
    }

    /// processes the `import` items that appear before any other item (header imports)
    fn pre_imports(&mut self, unit: &Rc<Unit>, scope: usize) -> R<()> {
        for it in &unit.items {
            match it {
                Item::Import { pkg, name } => self.do_import(scope, pkg, name.as_deref())?,
                _ => break,
            }
        }
        Ok(())
    }

    fn do_import(&mut self, scope: usize, pkg: &str, name: Option<&str>) -> R<()> {
        if !self.units.contains_key(pkg) {
            // the emitter writes imports of SV-namespace packages it does not own; tolerate a
            // missing package until a name is actually needed
            return Err(SvError::Unsupported(format!("import of unknown package {pkg}")));
        }
        let ps = self.package(pkg)?;
        match name {
            None => {
                if !self.scopes[scope].imports.contains(&ps) && ps != scope {
                    self.scopes[scope].imports.push(ps);
                }
            }
            Some(n) => {
                if ps == scope {
                    return Ok(());
                }
                let sym = self.scopes[ps].syms.get(n).cloned().ok_or_else(|| SvError::Elab(format!("{pkg}::{n} not found")))?;
                if !self.scopes[scope].syms.contains_key(n) {
                    self.scopes[scope].syms.insert(n.to_string(), sym);
                }
            }
        }
        Ok(())
    }

    fn elab_param(&mut self, p: &ParamDecl, scope: usize, ov: Option<&ParamOverride>) -> R<()> {
        if !p.unpacked.is_empty() {
            // constant unpacked array: stored flattened, the unpacked dimensions becoming the
            // outermost packed ones (element [left bound] in the most significant position), which
            // gives the same results for element reads, the only operation supported on it
            if ov.is_some() {
                return Err(SvError::Unsupported("override of an unpacked array parameter".into()));
            }
            let t = self.decl_type(&p.ty, &p.unpacked, scope)?;
            if matches!(t.kind, TyKind::Bits) && t.signed {
                return Err(SvError::Unsupported("unpacked array parameter with signed elements".into()));
            }
            let mut flat = t.clone();
            let mut dims = t.unpacked.clone();
            dims.extend(t.packed.iter().cloned());
            flat.packed = dims;
            flat.unpacked.clear();
            let Some(Expr::Pattern { ty: None, items }) = &p.value else {
                return Err(SvError::Unsupported("unpacked array parameter whose value is not an assignment pattern".into()));
            };
            let te = self.elab_pattern(items, &flat, scope)?;
            let v = self.const_value(&te)?;
            return self.define(scope, &p.name, Sym::Param { v, ty: flat });
        }
        if matches!(p.ty.base, TypeBase::TypeParam) {
            let ty = match ov {
                Some(ParamOverride::Type(t)) => t.clone(),
                Some(ParamOverride::Value(..)) => return Err(SvError::Elab(format!("type parameter {} overridden by a value", p.name))),
                None => match &p.value {
                    Some(Expr::Type(dt)) => self.resolve_type(dt, scope)?,
                    Some(_) => return Err(SvError::Elab("type parameter default is not a type".into())),
                    None => return Err(SvError::Elab(format!("type parameter {} has no value", p.name))),
                },
            };
            return self.define(scope, &p.name, Sym::Type(ty));
        }
        let implicit = matches!(p.ty.base, TypeBase::Implicit) && p.ty.packed.is_empty() && p.ty.signed.is_none();
        let declared = if implicit { None } else { Some(self.resolve_type(&p.ty, scope)?) };
        if let Some(t) = &declared {
            if !t.unpacked.is_empty() {
                return Err(SvError::Unsupported("unpacked array parameter".into()));
            }
        }
        // value: override (already evaluated in the parent scope) or default
        let (val, vty): (V, Option<Ty>) = match ov {
            Some(ParamOverride::Value(v, t)) => (v.clone(), t.clone()),
            Some(ParamOverride::Type(_)) => return Err(SvError::Elab(format!("value parameter {} overridden by a type", p.name))),
            None => {
                let Some(e) = &p.value else {
                    return Err(SvError::Elab(format!("parameter {} has no value", p.name)));
                };
                match (&declared, e) {
                    (Some(t), Expr::Pattern { ty: None, items }) => {
                        let te = self.elab_pattern(items, t, scope)?;
                        let v = self.const_value(&te)?;
                        (v, Some(t.clone()))
                    }
                    _ => {
                        let te = self.elab_expr(e, scope)?;
                        let mut v = self.const_value(&te.e)?;
                        v.signed = te.e.signed;
                        (v, te.ty.clone())
                    }
                }
            }
        };
        let (v, ty) = match declared {
            Some(t) => {
                // assignment to the declared type
                let w = t.packed_width();
                let mut r = val.resize(w.max(val.width()));
                r.bits.truncate(w);
                if let Some(m) = t.two_state_mask() {
                    for (i, b) in r.bits.iter_mut().enumerate() {
                        if m[i] && b.is_xz() {
                            *b = Bit::Zero;
                        }
                    }
                }
                r.signed = t.is_signed();
                (r, t)
            }
            None => {
                let t = vty.unwrap_or_else(|| Ty::bits(val.width(), val.signed, false));
                (val, t)
            }
        };
        self.define(scope, &p.name, Sym::Param { v, ty })
    }

    // ------------------------------------------------------------------ items (pass 1)
    fn elab_items(&mut self, items: &[Item], scope: usize, overrides: &[(String, ParamOverride)]) -> R<()> {
        // functions are visible before their declaration
        for it in items {
            if let Item::Func(f) = it {
                self.define(scope, &f.name, Sym::Func(f.clone(), scope))?;
            }
        }
        for it in items {
            match it {
                Item::Func(_) => {}
                Item::Import { pkg, name } => self.do_import(scope, pkg, name.as_deref())?,
                Item::Param(p) => {
                    let ov = if p.local { None } else { overrides.iter().find(|(n, _)| n == &p.name).map(|x| &x.1) };
                    self.elab_param(p, scope, ov)?;
                }
                Item::Typedef { ty, name, unpacked } => {
                    let mut t = self.resolve_type(ty, scope)?;
                    if !unpacked.is_empty() {
                        let mut u = self.resolve_dims(unpacked, scope, true)?;
                        u.extend(t.unpacked.iter().cloned());
                        t.unpacked = u;
                    }
                    self.define(scope, name, Sym::Type(t))?;
                }
                Item::Var(d) => {
                    if d.init.is_some() {
                        return Err(SvError::Unsupported("variable declaration with initializer at module level".into()));
                    }
                    let t = self.decl_type(&d.ty, &d.unpacked, scope)?;
                    let name = self.child_path(scope, &d.name);
                    let g = self.new_global(name, &t);
                    self.define(scope, &d.name, Sym::Var { loc: Loc::Global(g), ty: t })?;
                }
                Item::Assign { lhs, rhs } => {
                    self.deferred.push(Deferred::Assign { scope, lhs: lhs.clone(), rhs: rhs.clone() });
                }
                Item::AlwaysComb(body) => {
                    self.proc_counter += 1;
                    let name = format!("comb#{}", self.proc_counter);
                    self.deferred.push(Deferred::Comb { scope, body: body.clone(), name });
                }
                Item::AlwaysFf { edges, body } => {
                    self.proc_counter += 1;
                    let name = format!("ff#{}", self.proc_counter);
                    self.deferred.push(Deferred::Ff { scope, edges: edges.clone(), body: body.clone(), name });
                }
                Item::Modport { .. } => {}
                Item::Unsupported(what) => return Err(SvError::Unsupported(what.clone())),
                Item::Inst(inst) => self.elab_inst(inst, scope)?,
                Item::GenBlock { label, items } => {
                    let gs = self.gen_scope(scope, label.as_deref())?;
                    self.elab_items(items, gs, &[])?;
                }
                Item::GenIf { cond, label, then_items, else_items } => {
                    let c = self.const_eval(cond, scope)?;
                    if c.truth() == Bit::One {
                        let gs = self.gen_scope(scope, label.as_deref())?;
                        self.elab_items(then_items, gs, &[])?;
                    } else if let Some(e) = else_items {
                        // `else if` / `else begin` are items of this scope (they open their own block)
                        self.elab_items(e, scope, &[])?;
                    }
                }
                Item::GenFor { var, init, cond, step, label, items } => {
                    let mut val = self.const_eval(init, scope)?;
                    val = int_value(&val);
                    let mut map: HashMap<i64, usize> = HashMap::new();
                    let mut n = 0usize;
                    loop {
                        // a throw-away scope that binds the genvar for cond/step evaluation
                        let tmp = self.new_scope(Some(scope), self.scopes[scope].path.clone());
                        self.scopes[tmp].syms.insert(var.clone(), Sym::Param { v: val.clone(), ty: Ty::int() });
                        let c = self.const_eval(cond, tmp)?;
                        if c.truth() != Bit::One {
                            break;
                        }
                        let i = const_to_i64(&val).ok_or_else(|| SvError::Elab("x/z genvar".into()))?;
                        let path = match label {
                            Some(l) => self.child_path(scope, &format!("{l}[{i}]")),
                            None => self.child_path(scope, &format!("genblk[{i}]")),
                        };
                        let gs = self.new_scope(Some(scope), path);
                        self.scopes[gs].syms.insert(var.clone(), Sym::Param { v: val.clone(), ty: Ty::int() });
                        self.elab_items(items, gs, &[])?;
                        map.insert(i, gs);
                        // step
                        let next = match &**step {
                            Stmt::IncDec { inc, .. } => {
                                let one = Expr::Num { v: V::from_u128(1, 32, true), sized: false };
                                let e = Expr::Binary(if *inc { "+" } else { "-" }, Box::new(Expr::Ident { pkg: None, name: var.clone() }), Box::new(one));
                                self.const_eval(&e, tmp)?
                            }
                            Stmt::Assign { op, rhs, .. } => {
                                if *op == "=" {
                                    self.const_eval(rhs, tmp)?
                                } else {
                                    let bop = compound_to_binary(op)?;
                                    let e = Expr::Binary(bop, Box::new(Expr::Ident { pkg: None, name: var.clone() }), Box::new(rhs.clone()));
                                    self.const_eval(&e, tmp)?
                                }
                            }
                            _ => return Err(SvError::Unsupported("generate-for step".into())),
                        };
                        val = int_value(&next);
                        n += 1;
                        if n > MAX_GEN_ITERS {
                            return Err(SvError::Unsupported("generate loop with more than 4096 iterations".into()));
                        }
                    }
                    if let Some(l) = label {
                        self.define(scope, l, Sym::GenArr(Rc::new(map)))?;
                    }
                }
            }
        }
        Ok(())
    }

    fn gen_scope(&mut self, scope: usize, label: Option<&str>) -> R<usize> {
        let path = match label {
            Some(l) => self.child_path(scope, l),
            None => {
                self.proc_counter += 1;
                self.child_path(scope, &format!("genblk#{}", self.proc_counter))
            }
        };
        let gs = self.new_scope(Some(scope), path);
        if let Some(l) = label {
            self.define(scope, l, Sym::Scope(gs))?;
        }
        Ok(gs)
    }

    fn elab_inst(&mut self, inst: &InstDecl, scope: usize) -> R<()> {
        let unit = self
            .units
            .get(&inst.module)
            .cloned()
            .ok_or_else(|| SvError::Unsupported(format!("instance of unknown module {}", inst.module)))?;
        if unit.kind == UnitKind::Package {
            return Err(SvError::Elab(format!("{} is a package", inst.module)));
        }
        // positional connections (named "\u{1}pos<i>" by the parser) take the i-th declared port
        let resolved: InstDecl;
        let inst: &InstDecl = if inst.conns.iter().any(|(n, _)| n.starts_with('\u{1}')) {
            let mut c = inst.clone();
            for (n, _) in c.conns.iter_mut() {
                if let Some(i) = n.strip_prefix("\u{1}pos").and_then(|x| x.parse::<usize>().ok()) {
                    match unit.ports.get(i) {
                        Some(p) => *n = p.name.clone(),
                        None => return Err(SvError::Elab(format!("too many positional connections for {}", unit.name))),
                    }
                }
            }
            resolved = c;
            &resolved
        } else {
            inst
        };
        // parameter overrides are evaluated in the instantiating scope
        let mut ovs: Vec<(String, ParamOverride)> = vec![];
        for (n, e) in &inst.params {
            let Some(e) = e else { continue };
            let is_type_param = unit.params.iter().chain(unit.items.iter().filter_map(|i| if let Item::Param(p) = i { Some(p) } else { None }))
                .any(|p| &p.name == n && matches!(p.ty.base, TypeBase::TypeParam));
            if is_type_param {
                let t = self.expr_as_type(e, scope)?;
                ovs.push((n.clone(), ParamOverride::Type(t)));
            } else {
                let te = self.elab_expr(e, scope)?;
                let mut v = self.const_value(&te.e)?;
                v.signed = te.e.signed;
                ovs.push((n.clone(), ParamOverride::Value(v, te.ty.clone())));
            }
        }
        let dims = self.resolve_dims(&inst.array, scope, true)?;
        if dims.is_empty() {
            let path = self.child_path(scope, &inst.name);
            let child = self.new_scope(None, path);
            self.define(scope, &inst.name, Sym::Scope(child))?;
            self.elab_unit(&unit, child, &ovs, Some((inst, scope)), false)?;
            self.deferred.push(Deferred::Conn { parent: scope, child, inst: inst.clone(), unit });
        } else {
            if unit.kind != UnitKind::Interface {
                return Err(SvError::Unsupported("array of module instances".into()));
            }
            if !inst.conns.is_empty() {
                return Err(SvError::Unsupported("interface array with port connections".into()));
            }
            let total: usize = dims.iter().map(|r| range_len(*r)).product();
            let mut scopes = vec![];
            for k in 0..total {
                // index string, left index first
                let mut rem = k;
                let mut idx = vec![0i64; dims.len()];
                for (d, r) in dims.iter().enumerate().rev() {
                    let len = range_len(*r);
                    let p = rem % len;
                    rem /= len;
                    idx[d] = if r.0 <= r.1 { r.0 + p as i64 } else { r.0 - p as i64 };
                }
                let suffix: String = idx.iter().map(|i| format!("[{i}]")).collect();
                let path = self.child_path(scope, &format!("{}{}", inst.name, suffix));
                let child = self.new_scope(None, path);
                self.elab_unit(&unit, child, &ovs, None, false)?;
                scopes.push(child);
            }
            self.define(scope, &inst.name, Sym::ScopeArr(Rc::new((dims, scopes))))?;
        }
        Ok(())
    }

    // ------------------------------------------------------------------ pass 2
    fn elab_deferred(&mut self, d: Deferred) -> R<()> {
        match d {
            Deferred::Assign { scope, lhs, rhs } => {
                self.proc_counter += 1;
                let name = self.child_path(scope, &format!("assign#{}", self.proc_counter));
                let s = Stmt::Assign { lhs, op: "=", rhs, nb: false };
                let body = self.elab_stmt(&s, scope, &name)?;
                self.procs.push(Proc::Comb { name, body, reads: vec![] });
            }
            Deferred::Comb { scope, body, name } => {
                let name = self.child_path(scope, &name);
                let body = self.elab_stmt(&body, scope, &name)?;
                self.procs.push(Proc::Comb { name, body, reads: vec![] });
            }
            Deferred::Ff { scope, edges, body, name } => {
                let name = self.child_path(scope, &name);
                let mut es = vec![];
                for e in &edges {
                    let te = self.elab_expr(&e.signal, scope)?;
                    es.push(EdgeSpec { posedge: e.posedge, signal: te.e });
                }
                let body = self.elab_stmt(&body, scope, &name)?;
                self.procs.push(Proc::Ff { name, edges: es, body });
            }
            Deferred::Conn { parent, child, inst, unit } => {
                for (pname, _) in &inst.conns {
                    if !unit.ports.iter().any(|p| &p.name == pname) {
                        return Err(SvError::Elab(format!("port {pname} not found in {}", unit.name)));
                    }
                }
                for port in &unit.ports {
                    let PortKind::Var { dir, default, .. } = &port.kind else { continue };
                    let conn = inst.conns.iter().find(|(n, _)| n == &port.name);
                    let actual: Option<&Expr> = match conn {
                        Some((_, Some(e))) => Some(e),
                        _ => None,
                    };
                    let port_expr = Expr::Ident { pkg: None, name: port.name.clone() };
                    self.proc_counter += 1;
                    let name = format!("{}.port#{}({})", self.scopes[child].path, self.proc_counter, port.name);
                    match dir {
                        Dir::Input => {
                            let rhs_scope;
                            let rhs_expr: &Expr = match (actual, default) {
                                (Some(e), _) => {
                                    rhs_scope = parent;
                                    e
                                }
                                (None, Some(d)) if conn.is_none() => {
                                    rhs_scope = child;
                                    d
                                }
                                _ => continue, // unconnected input stays x
                            };
                            let body = self.elab_assign_scoped(&port_expr, child, rhs_expr, rhs_scope, &name)?;
                            self.procs.push(Proc::Comb { name, body, reads: vec![] });
                        }
                        Dir::Output => {
                            let Some(e) = actual else { continue };
                            let body = self.elab_assign_scoped(e, parent, &port_expr, child, &name)?;
                            self.procs.push(Proc::Comb { name, body, reads: vec![] });
                        }
                        Dir::Inout => return Err(SvError::Unsupported("inout port".into())),
                    }
                }
            }
        }
        Ok(())
    }
}

#[derive(Clone, Debug)]
pub(crate) enum ParamOverride {
    Value(V, Option<Ty>),
    Type(Ty),
}

/// genvars are 32-bit signed integers
fn int_value(v: &V) -> V {
    let mut r = v.resize(32.max(v.width()));
    r.bits.truncate(32);
    r.signed = true;
    r
}

pub(crate) fn compound_to_binary(op: &str) -> R<&'static str> {
    Ok(match op {
        "+=" => "+",
        "-=" => "-",
        "*=" => "*",
        "/=" => "/",
        "%=" => "%",
        "&=" => "&",
        "|=" => "|",
        "^=" => "^",
        "<<=" => "<<",
        ">>=" => ">>",
        "<<<=" => "<<<",
        ">>>=" => ">>>",
        _ => return Err(SvError::Elab(format!("unknown assignment operator {op}"))),
    })
}

// ---------------------------------------------------------------------- read sets
fn collect_reads_lref(r: &LRef, funcs: &[Option<Rc<RFunc>>], out: &mut BTreeSet<usize>, seen: &mut BTreeSet<usize>, is_read: bool) {
    if is_read {
        if let Loc::Global(g) = r.loc {
            out.insert(g);
        }
    }
    for (e, _) in &r.elem {
        collect_reads_expr(e, funcs, out, seen);
    }
    collect_reads_sels(&r.sels, funcs, out, seen);
}

fn collect_reads_sels(sels: &[Sel], funcs: &[Option<Rc<RFunc>>], out: &mut BTreeSet<usize>, seen: &mut BTreeSet<usize>) {
    for s in sels {
        match s {
            Sel::Bit { idx, .. } => collect_reads_expr(idx, funcs, out, seen),
            Sel::Indexed { base, .. } => collect_reads_expr(base, funcs, out, seen),
            _ => {}
        }
    }
}

fn collect_reads_lval(l: &LVal, funcs: &[Option<Rc<RFunc>>], out: &mut BTreeSet<usize>, seen: &mut BTreeSet<usize>) {
    match l {
        LVal::Ref(r) => collect_reads_lref(r, funcs, out, seen, false),
        LVal::Concat(v) => {
            for x in v {
                collect_reads_lval(x, funcs, out, seen);
            }
        }
    }
}

fn collect_reads_inside(items: &[RInside], funcs: &[Option<Rc<RFunc>>], out: &mut BTreeSet<usize>, seen: &mut BTreeSet<usize>) {
    for it in items {
        match it {
            RInside::Value(v) => collect_reads_expr(v, funcs, out, seen),
            RInside::Range(a, b) => {
                collect_reads_expr(a, funcs, out, seen);
                collect_reads_expr(b, funcs, out, seen);
            }
        }
    }
}

pub(crate) fn collect_reads_expr(e: &RExpr, funcs: &[Option<Rc<RFunc>>], out: &mut BTreeSet<usize>, seen: &mut BTreeSet<usize>) {
    match &e.k {
        RK::Const(_) | RK::Unbased(_) => {}
        RK::Read(r) => collect_reads_lref(r, funcs, out, seen, true),
        RK::Select { base, sels } => {
            collect_reads_expr(base, funcs, out, seen);
            collect_reads_sels(sels, funcs, out, seen);
        }
        RK::Unary(_, a) | RK::Repl(_, a) | RK::SignCast(a) | RK::Clog2(a) | RK::CountOnes(a) | RK::OneHot(a, _) | RK::IsUnknown(a) => {
            collect_reads_expr(a, funcs, out, seen)
        }
        RK::AssignCast { inner, .. } => collect_reads_expr(inner, funcs, out, seen),
        RK::Binary(_, a, b) => {
            collect_reads_expr(a, funcs, out, seen);
            collect_reads_expr(b, funcs, out, seen);
        }
        RK::Cond(a, b, c) => {
            collect_reads_expr(a, funcs, out, seen);
            collect_reads_expr(b, funcs, out, seen);
            collect_reads_expr(c, funcs, out, seen);
        }
        RK::Concat(v) => {
            for x in v {
                collect_reads_expr(x, funcs, out, seen);
            }
        }
        RK::Call { func, args, outs } => {
            for a in args {
                collect_reads_expr(a, funcs, out, seen);
            }
            for (_, l) in outs {
                collect_reads_lval(l, funcs, out, seen);
            }
            if seen.insert(*func) {
                if let Some(Some(f)) = funcs.get(*func) {
                    collect_reads_stmt(&f.body, funcs, out, seen);
                }
            }
        }
        RK::Inside(x, items) => {
            collect_reads_expr(x, funcs, out, seen);
            collect_reads_inside(items, funcs, out, seen);
        }
    }
}

pub(crate) fn collect_reads_stmt(s: &RStmt, funcs: &[Option<Rc<RFunc>>], out: &mut BTreeSet<usize>, seen: &mut BTreeSet<usize>) {
    match s {
        RStmt::Block(v) => {
            for x in v {
                collect_reads_stmt(x, funcs, out, seen);
            }
        }
        RStmt::Assign { pairs, .. } => {
            for (l, r) in pairs {
                collect_reads_lval(l, funcs, out, seen);
                collect_reads_expr(r, funcs, out, seen);
            }
        }
        RStmt::If(c, t, e) => {
            collect_reads_expr(c, funcs, out, seen);
            collect_reads_stmt(t, funcs, out, seen);
            if let Some(e) = e {
                collect_reads_stmt(e, funcs, out, seen);
            }
        }
        RStmt::Case { expr, items, default, .. } => {
            collect_reads_expr(expr, funcs, out, seen);
            for (labels, body) in items {
                collect_reads_inside(labels, funcs, out, seen);
                collect_reads_stmt(body, funcs, out, seen);
            }
            if let Some(d) = default {
                collect_reads_stmt(d, funcs, out, seen);
            }
        }
        RStmt::For { init, cond, step, body } => {
            collect_reads_stmt(init, funcs, out, seen);
            collect_reads_expr(cond, funcs, out, seen);
            collect_reads_stmt(step, funcs, out, seen);
            collect_reads_stmt(body, funcs, out, seen);
        }
        RStmt::Eval(e) => collect_reads_expr(e, funcs, out, seen),
        RStmt::Break | RStmt::Return | RStmt::InitLocal(_) | RStmt::Null => {}
    }
}

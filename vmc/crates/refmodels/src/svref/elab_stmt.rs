//! R2 elaborator, part 3: assignment patterns, function calls, statements.

use super::*;

impl Elab {
    // ------------------------------------------------------------------ patterns
    /// right-hand side for a packed target of type `ty` (handles an untyped `'{...}`)
    pub(crate) fn elab_rhs_for(&mut self, e: &Expr, ty: &Ty, scope: usize) -> R<RExpr> {
        if let Expr::Pattern { ty: None, items } = e {
            return self.elab_pattern(items, ty, scope);
        }
        Ok(self.elab_expr(e, scope)?.e)
    }

    /// assignment pattern for a packed type: the result is a vector of the type's width
    pub(crate) fn elab_pattern(&mut self, items: &[PatItem], ty: &Ty, scope: usize) -> R<RExpr> {
        if !ty.unpacked.is_empty() {
            return Err(SvError::Unsupported("assignment pattern for an unpacked array in a packed context".into()));
        }
        let w = ty.packed_width();
        let mut parts: Vec<RExpr> = vec![];
        if !ty.packed.is_empty() {
            let n = range_len(ty.packed[0]);
            let mut et = ty.clone();
            et.packed.remove(0);
            if matches!(et.kind, TyKind::Bits) {
                et.signed = false;
            }
            let exprs = self.pattern_positions(items, n)?;
            for e in exprs {
                let x = self.elab_rhs_for(e, &et, scope)?;
                parts.push(Self::wrap_assign(x, &et));
            }
        } else if let TyKind::Struct(def) = &ty.kind {
            if def.union {
                return Err(SvError::Unsupported("assignment pattern for a union".into()));
            }
            let def = def.clone();
            let named: Vec<(&String, &Expr)> = items.iter().filter_map(|i| if let PatItem::Named(n, e) = i { Some((n, e)) } else { None }).collect();
            let default: Option<&Expr> = items.iter().find_map(|i| if let PatItem::Default(e) = i { Some(e) } else { None });
            let positional: Vec<&Expr> = items.iter().filter_map(|i| if let PatItem::Pos(e) = i { Some(e) } else { None }).collect();
            if items.iter().any(|i| matches!(i, PatItem::Repl(..))) {
                return Err(SvError::Unsupported("replication in a struct pattern".into()));
            }
            if !positional.is_empty() && (!named.is_empty() || default.is_some() || positional.len() != def.fields.len()) {
                return Err(SvError::Elab("bad positional struct pattern".into()));
            }
            for (n, _) in &named {
                if !def.fields.iter().any(|(f, _)| &f == n) {
                    return Err(SvError::Elab(format!("struct pattern names unknown member {n}")));
                }
            }
            for (k, (fname, fty)) in def.fields.iter().enumerate() {
                let e: &Expr = if !positional.is_empty() {
                    positional[k]
                } else if let Some((_, e)) = named.iter().find(|(n, _)| *n == fname) {
                    e
                } else if let Some(d) = default {
                    d
                } else {
                    return Err(SvError::Elab(format!("struct pattern has no value for member {fname}")));
                };
                // a default applies to members recursively: for a struct member use the same pattern
                let x = match (e, &fty.kind) {
                    (Expr::Pattern { ty: None, items }, _) => self.elab_pattern(items, fty, scope)?,
                    (d, TyKind::Struct(_)) if default.map(|x| std::ptr::eq(x, d)).unwrap_or(false) && fty.packed.is_empty() => {
                        self.elab_pattern(&[PatItem::Default(d.clone())], fty, scope)?
                    }
                    _ => self.elab_expr(e, scope)?.e,
                };
                parts.push(Self::wrap_assign(x, fty));
            }
        } else {
            return Err(SvError::Unsupported("assignment pattern for a scalar type".into()));
        }
        Ok(RExpr { k: RK::Concat(parts), w, signed: false })
    }

    /// expands positional / default / replicated pattern items to exactly `n` expressions
    fn pattern_positions<'x>(&mut self, items: &'x [PatItem], n: usize) -> R<Vec<&'x Expr>> {
        let mut out: Vec<&Expr> = vec![];
        if items.len() == 1 {
            if let PatItem::Default(e) = &items[0] {
                return Ok(vec![e; n]);
            }
        }
        for it in items {
            match it {
                PatItem::Pos(e) => out.push(e),
                PatItem::Repl(c, list) => {
                    // count is constant in any scope that matters here; evaluate without scope-specific names
                    let c = match c {
                        Expr::Num { v, .. } => const_to_i64(v).unwrap_or(-1),
                        _ => return Err(SvError::Unsupported("non-literal replication count in a pattern".into())),
                    };
                    if c < 0 || c > (1 << 20) {
                        return Err(SvError::Elab("bad pattern replication count".into()));
                    }
                    for _ in 0..c {
                        out.extend(list.iter());
                    }
                }
                PatItem::Named(..) | PatItem::Default(_) => {
                    return Err(SvError::Unsupported("array pattern with keys mixed with other items".into()));
                }
            }
        }
        if out.len() != n {
            return Err(SvError::Elab(format!("pattern has {} elements, target has {n}", out.len())));
        }
        Ok(out)
    }

    /// element expressions (row-major) of an unpacked-array-valued right-hand side
    fn array_rhs(&mut self, e: &Expr, ty: &Ty, scope: usize) -> R<Vec<RExpr>> {
        match e {
            Expr::Pattern { ty: _, items } => {
                let n = range_len(ty.unpacked[0]);
                let mut et = ty.clone();
                et.unpacked.remove(0);
                let exprs: Vec<Expr> = self.pattern_positions(items, n)?.into_iter().cloned().collect();
                let mut out = vec![];
                for x in &exprs {
                    if et.unpacked.is_empty() {
                        let r = self.elab_rhs_for(x, &et, scope)?;
                        out.push(r);
                    } else {
                        out.extend(self.array_rhs(x, &et, scope)?);
                    }
                }
                Ok(out)
            }
            Expr::Cond(..) => Err(SvError::Unsupported("conditional expression of unpacked array type".into())),
            _ => {
                let Resolved::Acc(acc) = self.resolve_ref(e, scope)? else {
                    return Err(SvError::Elab("expected an array value".into()));
                };
                let a: Vec<usize> = acc.ty.unpacked.iter().map(|r| range_len(*r)).collect();
                let b: Vec<usize> = ty.unpacked.iter().map(|r| range_len(*r)).collect();
                if a != b {
                    return Err(SvError::Elab(format!("array shape mismatch: {a:?} vs {b:?}")));
                }
                let mut out = vec![];
                for el in self.expand_array(&acc) {
                    out.push(self.acc_to_expr(&el)?.e);
                }
                Ok(out)
            }
        }
    }

    // ------------------------------------------------------------------ calls
    pub(crate) fn get_func(&mut self, decl: &Rc<FuncDecl>, def_scope: usize) -> R<usize> {
        let key = (def_scope, decl.name.clone());
        if let Some(&id) = self.func_ids.get(&key) {
            return Ok(id);
        }
        let id = self.funcs.len();
        self.funcs.push(None);
        self.func_ids.insert(key, id);
        let saved = self.fctx.take();
        self.fctx = Some(FuncCtx { slots: vec![], slot_tys: vec![], ret: None });
        let r = self.elab_func_body(decl, def_scope);
        let ctx = self.fctx.take().unwrap();
        self.fctx = saved;
        let (inputs, body) = r?;
        self.funcs[id] = Some(Rc::new(RFunc { name: decl.name.clone(), slots: ctx.slots, inputs, ret: ctx.ret.map(|x| x.0), body }));
        Ok(id)
    }

    fn elab_func_body(&mut self, decl: &Rc<FuncDecl>, def_scope: usize) -> R<(Vec<usize>, RStmt)> {
        let path = self.child_path(def_scope, &decl.name);
        let fs = self.new_scope(Some(def_scope), path);
        let rt = self.resolve_type(&decl.ret, fs)?;
        if !rt.void {
            if !rt.unpacked.is_empty() {
                return Err(SvError::Unsupported("function returning an unpacked array".into()));
            }
            let slot = self.new_local(format!("{}#ret", decl.name), &rt);
            self.fctx.as_mut().unwrap().ret = Some((slot, rt.clone()));
            // the function name is also a variable holding the return value
            self.scopes[fs].syms.insert(decl.name.clone(), Sym::Var { loc: Loc::Local(slot), ty: rt });
        }
        let mut inputs = vec![];
        for (dir, dt, name, unpacked) in &decl.ports {
            let t = self.decl_type(dt, unpacked, fs)?;
            if !t.unpacked.is_empty() {
                return Err(SvError::Unsupported("unpacked array function argument".into()));
            }
            let slot = self.new_local(name.clone(), &t);
            self.define(fs, name, Sym::Var { loc: Loc::Local(slot), ty: t })?;
            match dir {
                Dir::Input => inputs.push(slot),
                Dir::Output => {}
                Dir::Inout => return Err(SvError::Unsupported("inout function argument".into())),
            }
        }
        let mut body = vec![];
        let pname = self.scopes[fs].path.clone();
        for s in &decl.body {
            body.push(self.elab_stmt(s, fs, &pname)?);
        }
        Ok((inputs, RStmt::Block(body)))
    }

    pub(crate) fn elab_call(&mut self, func: &Expr, args: &[Arg], scope: usize) -> R<TE> {
        let (decl, def_scope) = match self.resolve_ref(func, scope)? {
            Resolved::Sym(Sym::Func(d, s)) => (d, s),
            _ => return Err(SvError::Elab("call of something that is not a function".into())),
        };
        let fid = self.get_func(&decl, def_scope)?;
        // formal types (resolved in a scratch scope under the defining scope)
        let tmp = self.new_scope(Some(def_scope), String::new());
        let mut in_args = vec![];
        let mut outs = vec![];
        let named = args.iter().any(|a| a.name.is_some());
        if named && args.iter().any(|a| a.name.is_none()) {
            return Err(SvError::Unsupported("mixed named and positional arguments".into()));
        }
        if args.len() > decl.ports.len() {
            return Err(SvError::Elab(format!("too many arguments in call of {}", decl.name)));
        }
        // slots: ret (if any) is slot 0, then the ports in order
        let saved = self.fctx.take();
        let rt = self.resolve_type(&decl.ret, tmp);
        self.fctx = saved;
        let rt = rt?;
        let first_port_slot = if rt.void { 0 } else { 1 };
        for (k, (dir, dt, pname, unpacked)) in decl.ports.iter().enumerate() {
            let actual: Option<&Expr> = if named {
                args.iter().find(|a| a.name.as_deref() == Some(pname.as_str())).and_then(|a| a.expr.as_ref())
            } else {
                args.get(k).and_then(|a| a.expr.as_ref())
            };
            let saved = self.fctx.take();
            let t = self.decl_type(dt, unpacked, tmp);
            self.fctx = saved;
            let t = t?;
            let slot = first_port_slot + k;
            match dir {
                Dir::Input => {
                    let Some(a) = actual else {
                        return Err(SvError::Elab(format!("missing argument {pname} in call of {}", decl.name)));
                    };
                    let x = self.elab_rhs_for(a, &t, scope)?;
                    in_args.push(x);
                }
                Dir::Output => {
                    if let Some(a) = actual {
                        let lv = self.elab_lval(a, scope)?;
                        outs.push((slot, lv));
                    }
                }
                Dir::Inout => return Err(SvError::Unsupported("inout function argument".into())),
            }
        }
        let (w, signed, ty) = if rt.void { (1, false, None) } else { (rt.packed_width(), rt.is_signed(), Some(rt)) };
        Ok(TE { e: RExpr { k: RK::Call { func: fid, args: in_args, outs }, w, signed }, ty })
    }

    // ------------------------------------------------------------------ assignments
    pub(crate) fn elab_lval(&mut self, e: &Expr, scope: usize) -> R<LVal> {
        match e {
            Expr::Concat(parts) => {
                let mut v = vec![];
                for p in parts {
                    v.push(self.elab_lval(p, scope)?);
                }
                Ok(LVal::Concat(v))
            }
            _ => match self.resolve_ref(e, scope)? {
                Resolved::Acc(acc) => Ok(LVal::Ref(self.acc_to_lref(&acc)?)),
                _ => Err(SvError::Elab("assignment target is not a variable".into())),
            },
        }
    }

    /// `lhs = rhs` where the two sides live in different scopes (port connections) or the same
    pub(crate) fn elab_assign_scoped(&mut self, lhs: &Expr, lscope: usize, rhs: &Expr, rscope: usize, _pname: &str) -> R<RStmt> {
        self.elab_assign(lhs, lscope, rhs, rscope, false)
    }

    fn elab_assign(&mut self, lhs: &Expr, lscope: usize, rhs: &Expr, rscope: usize, nb: bool) -> R<RStmt> {
        if !matches!(lhs, Expr::Concat(_)) {
            if let Resolved::Acc(acc) = self.resolve_ref(lhs, lscope)? {
                if !acc.ty.unpacked.is_empty() {
                    // whole (sub)array assignment: element-wise, all right-hand sides first
                    let targets = self.expand_array(&acc);
                    let sources = self.array_rhs(rhs, &acc.ty, rscope)?;
                    if targets.len() != sources.len() {
                        return Err(SvError::Elab("array assignment size mismatch".into()));
                    }
                    let mut pairs = vec![];
                    for (t, s) in targets.iter().zip(sources.into_iter()) {
                        pairs.push((LVal::Ref(self.acc_to_lref(t)?), s));
                    }
                    return Ok(RStmt::Assign { pairs, nb });
                }
                let lv = LVal::Ref(self.acc_to_lref(&acc)?);
                let r = self.elab_rhs_for(rhs, &acc.ty, rscope)?;
                return Ok(RStmt::Assign { pairs: vec![(lv, r)], nb });
            }
            return Err(SvError::Elab("assignment target is not a variable".into()));
        }
        let lv = self.elab_lval(lhs, lscope)?;
        let r = self.elab_expr(rhs, rscope)?.e;
        Ok(RStmt::Assign { pairs: vec![(lv, r)], nb })
    }

    // ------------------------------------------------------------------ statements
    pub(crate) fn elab_stmt(&mut self, s: &Stmt, scope: usize, pname: &str) -> R<RStmt> {
        match s {
            Stmt::Null => Ok(RStmt::Null),
            Stmt::Block { name, items } => {
                let inner = if name.as_deref() == Some("\u{0}flat") {
                    scope
                } else {
                    let path = match name {
                        Some(n) => self.child_path(scope, n),
                        None => self.scopes[scope].path.clone(),
                    };
                    let bs = self.new_scope(Some(scope), path);
                    if let Some(n) = name {
                        // named blocks are reachable by name (not needed for simulation; ignore clashes)
                        let _ = self.define(scope, n, Sym::Scope(bs));
                    }
                    bs
                };
                let mut out = vec![];
                for it in items {
                    out.push(self.elab_stmt(it, inner, pname)?);
                }
                Ok(RStmt::Block(out))
            }
            Stmt::VarDecl(d) => {
                let t = self.decl_type(&d.ty, &d.unpacked, scope)?;
                if self.fctx.is_some() {
                    let slot = self.new_local(d.name.clone(), &t);
                    self.define(scope, &d.name, Sym::Var { loc: Loc::Local(slot), ty: t })?;
                    match &d.init {
                        Some(init) => {
                            let lhs = Expr::Ident { pkg: None, name: d.name.clone() };
                            self.elab_assign(&lhs, scope, init, scope, false)
                        }
                        None => Ok(RStmt::InitLocal(slot)),
                    }
                } else {
                    // variables declared inside a static process are static
                    let g = self.new_global(format!("{pname}.{}", d.name), &t);
                    self.define(scope, &d.name, Sym::Var { loc: Loc::Global(g), ty: t })?;
                    match &d.init {
                        // the only initialised declaration allowed here is a for-loop variable,
                        // handled by Stmt::For; anything else would be a time-0 initialiser
                        Some(_) => Err(SvError::Unsupported("initialised static variable inside a process".into())),
                        None => Ok(RStmt::Null),
                    }
                }
            }
            Stmt::ParamDecl(p) => {
                self.elab_param_in_stmt(p, scope)?;
                Ok(RStmt::Null)
            }
            Stmt::Assign { lhs, op, rhs, nb } => {
                if *op == "=" {
                    self.elab_assign(lhs, scope, rhs, scope, *nb)
                } else {
                    let bop = compound_to_binary(op)?;
                    let e = Expr::Binary(bop, Box::new(lhs.clone()), Box::new(rhs.clone()));
                    self.elab_assign(lhs, scope, &e, scope, *nb)
                }
            }
            Stmt::IncDec { lhs, inc } => {
                let one = Expr::Num { v: V::from_u128(1, 32, true), sized: false };
                let e = Expr::Binary(if *inc { "+" } else { "-" }, Box::new(lhs.clone()), Box::new(one));
                self.elab_assign(lhs, scope, &e, scope, false)
            }
            Stmt::If { cond, then_s, else_s } => {
                let c = self.elab_expr(cond, scope)?.e;
                let t = self.elab_stmt(then_s, scope, pname)?;
                let e = match else_s {
                    Some(e) => Some(Box::new(self.elab_stmt(e, scope, pname)?)),
                    None => None,
                };
                Ok(RStmt::If(c, Box::new(t), e))
            }
            Stmt::Case { kind, expr, items } => {
                let x = self.elab_expr(expr, scope)?.e;
                let mut cw = x.w;
                let mut cs = x.signed;
                let mut ritems = vec![];
                let mut default = None;
                for it in items {
                    let body = self.elab_stmt(&it.body, scope, pname)?;
                    if it.labels.is_empty() {
                        if default.is_some() {
                            return Err(SvError::Elab("more than one default in a case statement".into()));
                        }
                        default = Some(Box::new(body));
                        continue;
                    }
                    let labels = self.elab_inside_items(&it.labels, scope)?;
                    for l in &labels {
                        if let RInside::Value(v) = l {
                            // 12.5: all expressions are sized to the widest; signed only if all are
                            if !matches!(v.k, RK::Unbased(_)) {
                                cw = cw.max(v.w);
                            }
                            cs = cs && v.signed;
                        }
                    }
                    ritems.push((labels, body));
                }
                Ok(RStmt::Case { kind: *kind, expr: x, items: ritems, default, cw, cs })
            }
            Stmt::For { init, cond, step, body } => {
                let path = self.scopes[scope].path.clone();
                let fs = self.new_scope(Some(scope), path);
                let rinit = match &**init {
                    Stmt::VarDecl(d) => {
                        let t = self.decl_type(&d.ty, &d.unpacked, fs)?;
                        let loc = if self.fctx.is_some() {
                            Loc::Local(self.new_local(d.name.clone(), &t))
                        } else {
                            Loc::Global(self.new_global(format!("{pname}.{}", d.name), &t))
                        };
                        self.define(fs, &d.name, Sym::Var { loc, ty: t })?;
                        let lhs = Expr::Ident { pkg: None, name: d.name.clone() };
                        let Some(e) = &d.init else {
                            return Err(SvError::Elab("for-loop variable without initial value".into()));
                        };
                        self.elab_assign(&lhs, fs, e, fs, false)?
                    }
                    other => self.elab_stmt(other, fs, pname)?,
                };
                let c = self.elab_expr(cond, fs)?.e;
                let st = self.elab_stmt(step, fs, pname)?;
                let b = self.elab_stmt(body, fs, pname)?;
                Ok(RStmt::For { init: Box::new(rinit), cond: c, step: Box::new(st), body: Box::new(b) })
            }
            Stmt::Break => Ok(RStmt::Break),
            Stmt::Return(e) => {
                let Some(f) = self.fctx.as_ref() else {
                    return Err(SvError::Elab("return outside a function".into()));
                };
                match (e, f.ret.clone()) {
                    (Some(e), Some((slot, ty))) => {
                        let r = self.elab_rhs_for(e, &ty, scope)?;
                        let lv = LVal::Ref(LRef { loc: Loc::Local(slot), elem: vec![], strides: vec![], sels: vec![], base_w: ty.packed_width(), w: ty.packed_width() });
                        Ok(RStmt::Block(vec![RStmt::Assign { pairs: vec![(lv, r)], nb: false }, RStmt::Return]))
                    }
                    (None, _) => Ok(RStmt::Return),
                    (Some(_), None) => Err(SvError::Elab("return with a value in a void function".into())),
                }
            }
            Stmt::Expr(e) => {
                let te = self.elab_expr(e, scope)?;
                Ok(RStmt::Eval(te.e))
            }
        }
    }

    fn elab_param_in_stmt(&mut self, p: &ParamDecl, scope: usize) -> R<()> {
        // same rules as a module-level localparam
        let items = [Item::Param(ParamDecl { local: true, ..p.clone() })];
        self.elab_items(&items, scope, &[])
    }
}

pub mod bits;
pub mod expr;
pub mod svref;
pub mod semver_ref;

pub mod bits;

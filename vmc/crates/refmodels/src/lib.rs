pub mod bits;
pub mod svref;

pub mod bits;
pub mod expr;
pub mod svref;

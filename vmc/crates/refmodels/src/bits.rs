//! R1 — IEEE 1800-2017 4-state bit-vector semantics, written from the standard's tables
//! (11.4.2 arithmetic, 11.4.4 relational, 11.4.5 equality, 11.4.6 wildcard equality, 11.4.7
//! logical, 11.4.8 bitwise, 11.4.9 reduction, 11.4.10 shift, 11.4.11 conditional, 11.4.12
//! concatenation, 11.6 expression bit lengths, 11.8 signedness).
//!
//! Deliberately boring: one `Bit` per element, LSB first, bit-serial arithmetic. Shares no code
//! with veryl.

#[derive(Clone, Copy, PartialEq, Eq, Debug, Hash, PartialOrd, Ord)]
pub enum Bit {
    Zero,
    One,
    X,
    Z,
}
use Bit::*;

impl Bit {
    pub fn is_xz(self) -> bool {
        matches!(self, X | Z)
    }
    pub fn from_bool(b: bool) -> Bit {
        if b { One } else { Zero }
    }
    pub fn to_char(self) -> char {
        match self {
            Zero => '0',
            One => '1',
            X => 'x',
            Z => 'z',
        }
    }
    pub fn and(self, o: Bit) -> Bit {
        match (self, o) {
            (Zero, _) | (_, Zero) => Zero,
            (One, One) => One,
            _ => X,
        }
    }
    pub fn or(self, o: Bit) -> Bit {
        match (self, o) {
            (One, _) | (_, One) => One,
            (Zero, Zero) => Zero,
            _ => X,
        }
    }
    pub fn xor(self, o: Bit) -> Bit {
        match (self, o) {
            (Zero, Zero) | (One, One) => Zero,
            (Zero, One) | (One, Zero) => One,
            _ => X,
        }
    }
    pub fn not(self) -> Bit {
        match self {
            Zero => One,
            One => Zero,
            _ => X,
        }
    }
}

/// A 4-state vector, `bits[0]` = LSB.
#[derive(Clone, PartialEq, Eq, Debug, Hash, PartialOrd, Ord)]
pub struct V {
    pub bits: Vec<Bit>,
    pub signed: bool,
}

impl V {
    pub fn new(bits: Vec<Bit>, signed: bool) -> V {
        V { bits, signed }
    }
    pub fn width(&self) -> usize {
        self.bits.len()
    }
    pub fn zeros(w: usize, signed: bool) -> V {
        V::new(vec![Zero; w], signed)
    }
    pub fn all(w: usize, b: Bit, signed: bool) -> V {
        V::new(vec![b; w], signed)
    }
    pub fn from_u128(v: u128, w: usize, signed: bool) -> V {
        V::new(
            (0..w)
                .map(|i| if i < 128 && (v >> i) & 1 == 1 { One } else { Zero })
                .collect(),
            signed,
        )
    }
    pub fn from_bool(b: bool) -> V {
        V::new(vec![Bit::from_bool(b)], false)
    }
    /// (payload, mask) words where mask bit set = X/Z and payload bit distinguishes X(0... see
    /// callers); here: returns per-bit chars, MSB first, for printing.
    pub fn to_string_msb(&self) -> String {
        self.bits.iter().rev().map(|b| b.to_char()).collect()
    }
    pub fn from_str_msb(s: &str, signed: bool) -> V {
        V::new(
            s.chars()
                .rev()
                .filter(|c| *c != '_')
                .map(|c| match c {
                    '0' => Zero,
                    '1' => One,
                    'x' | 'X' => X,
                    _ => Z,
                })
                .collect(),
            signed,
        )
    }
    pub fn has_xz(&self) -> bool {
        self.bits.iter().any(|b| b.is_xz())
    }
    pub fn is_zero(&self) -> bool {
        self.bits.iter().all(|b| *b == Zero)
    }
    pub fn msb(&self) -> Bit {
        self.bits.last().copied().unwrap_or(Zero)
    }
    pub fn to_u128(&self) -> Option<u128> {
        if self.has_xz() {
            return None;
        }
        let mut v = 0u128;
        for (i, b) in self.bits.iter().enumerate() {
            if *b == One {
                if i >= 128 {
                    return None;
                }
                v |= 1 << i;
            }
        }
        Some(v)
    }
    /// Value as usize if it fits and is fully known.
    pub fn to_usize(&self) -> Option<usize> {
        self.to_u128().and_then(|v| usize::try_from(v).ok())
    }

    /// 11.6/11.8: extend to `w` bits (sign extension when signed: the MSB, including x/z, is
    /// replicated; zero extension otherwise); truncate when narrower.
    pub fn resize(&self, w: usize) -> V {
        let mut bits = self.bits.clone();
        if bits.len() > w {
            bits.truncate(w);
        } else {
            let fill = if self.signed && !bits.is_empty() { self.msb() } else { Zero };
            bits.resize(w, fill);
        }
        V::new(bits, self.signed)
    }
    pub fn with_sign(&self, signed: bool) -> V {
        V::new(self.bits.clone(), signed)
    }
    /// Z is treated as X on operator inputs.
    fn known(&self) -> bool {
        !self.has_xz()
    }
    fn is_neg(&self) -> bool {
        self.signed && self.msb() == One
    }

    // ------------------------------------------------------------------ arithmetic on known vectors
    // Two implementations of each primitive: `*_serial` is the bit-by-bit definition (ripple
    // carry, shift-and-add, restoring division); `*_raw` packs the bits into 64-bit limbs and does
    // schoolbook arithmetic on them (the operators use these: the serial forms cost O(w^2)
    // allocations at 300 bits). The unit tests check that both agree.
    fn add_serial(a: &[Bit], b: &[Bit], mut carry: bool) -> Vec<Bit> {
        let mut out = Vec::with_capacity(a.len());
        for i in 0..a.len() {
            let x = a[i] == One;
            let y = b[i] == One;
            let s = x ^ y ^ carry;
            carry = (x & y) | (x & carry) | (y & carry);
            out.push(Bit::from_bool(s));
        }
        out
    }
    fn neg_serial(a: &[Bit]) -> Vec<Bit> {
        let inv: Vec<Bit> = a.iter().map(|b| b.not()).collect();
        let zero = vec![Zero; a.len()];
        V::add_serial(&inv, &zero, true)
    }
    fn mul_serial(a: &[Bit], b: &[Bit]) -> Vec<Bit> {
        let w = a.len();
        let mut acc = vec![Zero; w];
        for i in 0..w {
            if b[i] == One {
                let mut sh = vec![Zero; w];
                for j in i..w {
                    sh[j] = a[j - i];
                }
                acc = V::add_serial(&acc, &sh, false);
            }
        }
        acc
    }
    fn ge_raw(a: &[Bit], b: &[Bit]) -> bool {
        for i in (0..a.len()).rev() {
            if a[i] != b[i] {
                return a[i] == One;
            }
        }
        true
    }
    /// unsigned restoring division: (quotient, remainder)
    fn divmod_serial(a: &[Bit], b: &[Bit]) -> (Vec<Bit>, Vec<Bit>) {
        let w = a.len();
        let mut q = vec![Zero; w];
        let mut r = vec![Zero; w + 1];
        let mut bb = b.to_vec();
        bb.push(Zero);
        for i in (0..w).rev() {
            // r = (r << 1) | a[i]
            for j in (1..=w).rev() {
                r[j] = r[j - 1];
            }
            r[0] = a[i];
            if V::ge_raw(&r, &bb) {
                let nb = V::neg_serial(&bb);
                r = V::add_serial(&r, &nb, false);
                q[i] = One;
            }
        }
        r.truncate(w);
        (q, r)
    }

    // limbs, least significant first; bits above `w` are kept zero
    fn to_limbs(a: &[Bit]) -> Vec<u64> {
        let mut out = vec![0u64; a.len().div_ceil(64).max(1)];
        for (i, b) in a.iter().enumerate() {
            if *b == One {
                out[i / 64] |= 1u64 << (i % 64);
            }
        }
        out
    }
    fn from_limbs(l: &[u64], w: usize) -> Vec<Bit> {
        (0..w).map(|i| Bit::from_bool((l[i / 64] >> (i % 64)) & 1 == 1)).collect()
    }
    fn limbs_add(a: &[u64], b: &[u64], carry_in: bool) -> Vec<u64> {
        let mut out = Vec::with_capacity(a.len());
        let mut carry = carry_in as u128;
        for i in 0..a.len() {
            let s = a[i] as u128 + b[i] as u128 + carry;
            out.push(s as u64);
            carry = s >> 64;
        }
        out
    }
    fn limbs_ge(a: &[u64], b: &[u64]) -> bool {
        for i in (0..a.len()).rev() {
            if a[i] != b[i] {
                return a[i] > b[i];
            }
        }
        true
    }
    fn add_raw(a: &[Bit], b: &[Bit], carry: bool) -> Vec<Bit> {
        let r = V::limbs_add(&V::to_limbs(a), &V::to_limbs(b), carry);
        V::from_limbs(&r, a.len())
    }
    fn neg_raw(a: &[Bit]) -> Vec<Bit> {
        let inv: Vec<Bit> = a.iter().map(|b| b.not()).collect();
        let zero = vec![Zero; a.len()];
        V::add_raw(&inv, &zero, true)
    }
    /// product modulo 2^w (schoolbook on limbs)
    fn mul_raw(a: &[Bit], b: &[Bit]) -> Vec<Bit> {
        let x = V::to_limbs(a);
        let y = V::to_limbs(b);
        let n = x.len();
        let mut out = vec![0u64; n];
        for i in 0..n {
            let mut carry = 0u128;
            for j in 0..n - i {
                let t = x[i] as u128 * y[j] as u128 + out[i + j] as u128 + carry;
                out[i + j] = t as u64;
                carry = t >> 64;
            }
        }
        V::from_limbs(&out, a.len())
    }
    /// unsigned restoring division on limbs: (quotient, remainder)
    fn divmod_raw(a: &[Bit], b: &[Bit]) -> (Vec<Bit>, Vec<Bit>) {
        let w = a.len();
        // one spare bit for the shifted remainder
        let n = (w + 1).div_ceil(64).max(1);
        let mut d = V::to_limbs(b);
        d.resize(n, 0);
        // two's complement of the divisor, for the subtraction
        let inv: Vec<u64> = d.iter().map(|x| !x).collect();
        let zero = vec![0u64; n];
        let neg_d = V::limbs_add(&inv, &zero, true);
        let mut q = vec![0u64; n];
        let mut r = vec![0u64; n];
        for i in (0..w).rev() {
            // r = (r << 1) | a[i]
            let mut carry = (a[i] == One) as u64;
            for limb in r.iter_mut() {
                let next = *limb >> 63;
                *limb = (*limb << 1) | carry;
                carry = next;
            }
            if V::limbs_ge(&r, &d) {
                r = V::limbs_add(&r, &neg_d, false);
                q[i / 64] |= 1u64 << (i % 64);
            }
        }
        (V::from_limbs(&q, w), V::from_limbs(&r, w))
    }

    /// Brings both operands to the common width/signedness of a context-determined binary
    /// operator (11.6.1, 11.8.1): width = max(wa, wb, ctx), signed iff both signed.
    pub fn binary_context(a: &V, b: &V, ctx: usize) -> (V, V, usize, bool) {
        let signed = a.signed && b.signed;
        let w = a.width().max(b.width()).max(ctx);
        // extension uses each operand's *own* type only when the expression type is signed
        // (11.8.2: propagate type to operands; an unsigned expression zero-extends everything)
        let a2 = a.with_sign(signed).resize(w);
        let b2 = b.with_sign(signed).resize(w);
        (a2, b2, w, signed)
    }

    pub fn add(a: &V, b: &V, ctx: usize) -> V {
        let (a, b, w, s) = V::binary_context(a, b, ctx);
        if !a.known() || !b.known() {
            return V::all(w, X, s);
        }
        V::new(V::add_raw(&a.bits, &b.bits, false), s)
    }
    pub fn sub(a: &V, b: &V, ctx: usize) -> V {
        let (a, b, w, s) = V::binary_context(a, b, ctx);
        if !a.known() || !b.known() {
            return V::all(w, X, s);
        }
        let nb: Vec<Bit> = b.bits.iter().map(|x| x.not()).collect();
        V::new(V::add_raw(&a.bits, &nb, true), s)
    }
    pub fn mul(a: &V, b: &V, ctx: usize) -> V {
        let (a, b, w, s) = V::binary_context(a, b, ctx);
        if !a.known() || !b.known() {
            return V::all(w, X, s);
        }
        V::new(V::mul_raw(&a.bits, &b.bits), s)
    }
    fn divmod(a: &V, b: &V, ctx: usize, want_rem: bool) -> V {
        let (a, b, w, s) = V::binary_context(a, b, ctx);
        if !a.known() || !b.known() || b.is_zero() {
            return V::all(w, X, s);
        }
        let an = a.is_neg();
        let bn = b.is_neg();
        let ua = if an { V::neg_raw(&a.bits) } else { a.bits.clone() };
        let ub = if bn { V::neg_raw(&b.bits) } else { b.bits.clone() };
        let (q, r) = V::divmod_raw(&ua, &ub);
        if want_rem {
            // sign of the result follows the first operand
            V::new(if an { V::neg_raw(&r) } else { r }, s)
        } else {
            // truncation toward zero
            V::new(if an != bn { V::neg_raw(&q) } else { q }, s)
        }
    }
    pub fn div(a: &V, b: &V, ctx: usize) -> V {
        V::divmod(a, b, ctx, false)
    }
    pub fn rem(a: &V, b: &V, ctx: usize) -> V {
        V::divmod(a, b, ctx, true)
    }
    /// 11.4.3 power. The right operand is self-determined; the result has the type of the left
    /// operand extended to the context.
    pub fn pow(a: &V, b: &V, ctx: usize) -> V {
        // result type: width = max(wa, ctx) (Table 11-21: `i ** j` has L(i), j is
        // self-determined). Signedness: 11.8.1 derives the type from the *non-self-determined*
        // operands only, so it is that of the left operand (as for the shifts); the exponent is
        // interpreted by its own type.
        let s = a.signed;
        let w = a.width().max(ctx);
        let a2 = a.resize(w);
        if !a2.known() || !b.known() {
            return V::all(w, X, s);
        }
        let b_neg = b.signed && b.msb() == One;
        let a_is_zero = a2.is_zero();
        let one = V::from_u128(1, w, s);
        let a_is_one = a2.bits == one.bits;
        let a_is_minus_one = s && a2.bits.iter().all(|x| *x == One);
        if b.is_zero() {
            return one;
        }
        if b_neg {
            // Table 11-4
            if a_is_zero {
                return V::all(w, X, s);
            }
            if a_is_one {
                return one;
            }
            if a_is_minus_one {
                // -1 ** negative: 1 if exponent even else -1
                return if b.bits[0] == Zero { one } else { a2 };
            }
            return V::zeros(w, s);
        }
        // positive exponent: square and multiply modulo 2^w
        let mut result = one.bits.clone();
        let mut base = a2.bits.clone();
        let top = b.bits.iter().rposition(|x| *x == One).unwrap_or(0);
        for i in 0..=top {
            if b.bits[i] == One {
                result = V::mul_raw(&result, &base);
            }
            if i < top {
                base = V::mul_raw(&base, &base);
            }
        }
        V::new(result, s)
    }

    pub fn bitop(a: &V, b: &V, ctx: usize, f: fn(Bit, Bit) -> Bit) -> V {
        let (a, b, _w, s) = V::binary_context(a, b, ctx);
        V::new(a.bits.iter().zip(b.bits.iter()).map(|(x, y)| f(*x, *y)).collect(), s)
    }
    pub fn bit_and(a: &V, b: &V, ctx: usize) -> V {
        V::bitop(a, b, ctx, Bit::and)
    }
    pub fn bit_or(a: &V, b: &V, ctx: usize) -> V {
        V::bitop(a, b, ctx, Bit::or)
    }
    pub fn bit_xor(a: &V, b: &V, ctx: usize) -> V {
        V::bitop(a, b, ctx, Bit::xor)
    }
    pub fn bit_xnor(a: &V, b: &V, ctx: usize) -> V {
        V::bitop(a, b, ctx, |x, y| x.xor(y).not())
    }
    pub fn bit_not(a: &V, ctx: usize) -> V {
        let a = a.resize(a.width().max(ctx));
        V::new(a.bits.iter().map(|x| x.not()).collect(), a.signed)
    }
    pub fn neg(a: &V, ctx: usize) -> V {
        let a = a.resize(a.width().max(ctx));
        if !a.known() {
            return V::all(a.width(), X, a.signed);
        }
        V::new(V::neg_raw(&a.bits), a.signed)
    }
    pub fn plus(a: &V, ctx: usize) -> V {
        let a = a.resize(a.width().max(ctx));
        if !a.known() {
            // unary plus of an unknown value: arithmetic operator => x
            return V::all(a.width(), X, a.signed);
        }
        a
    }

    // ------------------------------------------------------------------ reductions (11.4.9)
    pub fn red_and(&self) -> V {
        V::new(vec![self.bits.iter().fold(One, |acc, b| acc.and(*b))], false)
    }
    pub fn red_or(&self) -> V {
        V::new(vec![self.bits.iter().fold(Zero, |acc, b| acc.or(*b))], false)
    }
    pub fn red_xor(&self) -> V {
        V::new(vec![self.bits.iter().fold(Zero, |acc, b| acc.xor(*b))], false)
    }
    pub fn red_nand(&self) -> V {
        V::new(vec![self.red_and().bits[0].not()], false)
    }
    pub fn red_nor(&self) -> V {
        V::new(vec![self.red_or().bits[0].not()], false)
    }
    pub fn red_xnor(&self) -> V {
        V::new(vec![self.red_xor().bits[0].not()], false)
    }

    // ------------------------------------------------------------------ logical (11.4.7)
    /// truth value: One if any bit is 1, Zero if all bits 0, else X
    pub fn truth(&self) -> Bit {
        if self.bits.iter().any(|b| *b == One) {
            One
        } else if self.bits.iter().all(|b| *b == Zero) {
            Zero
        } else {
            X
        }
    }
    pub fn log_and(a: &V, b: &V) -> V {
        V::new(vec![a.truth().and(b.truth())], false)
    }
    pub fn log_or(a: &V, b: &V) -> V {
        V::new(vec![a.truth().or(b.truth())], false)
    }
    pub fn log_not(a: &V) -> V {
        V::new(vec![a.truth().not()], false)
    }

    // ------------------------------------------------------------------ relational (11.4.4)
    /// operands are sized to max(wa, wb) (context does not reach them), signed iff both signed
    fn cmp_known(a: &V, b: &V) -> Option<std::cmp::Ordering> {
        let (a, b, w, s) = V::binary_context(a, b, 0);
        if !a.known() || !b.known() {
            return None;
        }
        if s && w > 0 {
            let an = a.msb() == One;
            let bn = b.msb() == One;
            if an != bn {
                return Some(if an { std::cmp::Ordering::Less } else { std::cmp::Ordering::Greater });
            }
        }
        for i in (0..w).rev() {
            if a.bits[i] != b.bits[i] {
                return Some(if a.bits[i] == One {
                    std::cmp::Ordering::Greater
                } else {
                    std::cmp::Ordering::Less
                });
            }
        }
        Some(std::cmp::Ordering::Equal)
    }
    fn rel(a: &V, b: &V, f: fn(std::cmp::Ordering) -> bool) -> V {
        match V::cmp_known(a, b) {
            None => V::new(vec![X], false),
            Some(o) => V::from_bool(f(o)),
        }
    }
    pub fn lt(a: &V, b: &V) -> V {
        V::rel(a, b, |o| o.is_lt())
    }
    pub fn le(a: &V, b: &V) -> V {
        V::rel(a, b, |o| o.is_le())
    }
    pub fn gt(a: &V, b: &V) -> V {
        V::rel(a, b, |o| o.is_gt())
    }
    pub fn ge(a: &V, b: &V) -> V {
        V::rel(a, b, |o| o.is_ge())
    }

    // ------------------------------------------------------------------ equality (11.4.5)
    /// Logical equality. Returns (strict, lenient): `strict` = x whenever any operand bit is
    /// x/z; `lenient` = 0 when some bit position holds two *known, different* values (the
    /// relation is then not ambiguous), x otherwise. The standard's text ("if, due to unknown
    /// bits, the relation is ambiguous, the result is x") admits both readings found in
    /// simulators; callers decide which they accept.
    pub fn eq2(a: &V, b: &V) -> (Bit, Bit) {
        let (a, b, _w, _s) = V::binary_context(a, b, 0);
        let any_xz = a.has_xz() || b.has_xz();
        let definite_mismatch = a
            .bits
            .iter()
            .zip(b.bits.iter())
            .any(|(x, y)| !x.is_xz() && !y.is_xz() && x != y);
        if !any_xz {
            let e = Bit::from_bool(!definite_mismatch);
            (e, e)
        } else {
            (X, if definite_mismatch { Zero } else { X })
        }
    }
    /// case equality ===
    pub fn case_eq(a: &V, b: &V) -> V {
        let (a, b, _w, _s) = V::binary_context(a, b, 0);
        V::from_bool(a.bits == b.bits)
    }
    /// wildcard equality ==? (11.4.6): x/z in the *right* operand are wildcards; x/z in the left
    /// operand at a non-wildcard position make the result x (unless a definite mismatch exists:
    /// same two readings as eq2).
    pub fn wild_eq2(a: &V, b: &V) -> (Bit, Bit) {
        let (a, b, _w, _s) = V::binary_context(a, b, 0);
        let mut any_x = false;
        let mut mismatch = false;
        for (x, y) in a.bits.iter().zip(b.bits.iter()) {
            if y.is_xz() {
                continue;
            }
            if x.is_xz() {
                any_x = true;
            } else if x != y {
                mismatch = true;
            }
        }
        if any_x {
            (X, if mismatch { Zero } else { X })
        } else {
            let e = Bit::from_bool(!mismatch);
            (e, e)
        }
    }

    // ------------------------------------------------------------------ shifts (11.4.10)
    /// The left operand is context-determined (extended to ctx), the right operand is
    /// self-determined and always treated as unsigned.
    pub fn shift(a: &V, b: &V, ctx: usize, left: bool, arith: bool) -> V {
        let a = a.resize(a.width().max(ctx));
        let w = a.width();
        if b.has_xz() {
            return V::all(w, X, a.signed);
        }
        // amount >= w saturates
        let mut amt: usize = 0;
        let mut big = false;
        for (i, bit) in b.bits.iter().enumerate() {
            if *bit == One {
                if i >= 31 {
                    big = true;
                } else {
                    amt |= 1 << i;
                }
            }
        }
        if big || amt > w {
            amt = w;
        }
        let fill = if !left && arith && a.signed { a.msb() } else { Zero };
        let mut out = vec![fill; w];
        if left {
            for i in amt..w {
                out[i] = a.bits[i - amt];
            }
            for o in out.iter_mut().take(amt.min(w)) {
                *o = Zero;
            }
        } else {
            for i in 0..w.saturating_sub(amt) {
                out[i] = a.bits[i + amt];
            }
        }
        V::new(out, a.signed)
    }

    // ------------------------------------------------------------------ conditional (11.4.11)
    pub fn cond(c: &V, t: &V, e: &V, ctx: usize) -> V {
        let (t2, e2, _w, s) = V::binary_context(t, e, ctx);
        match c.truth() {
            One => t2,
            Zero => e2,
            _ => V::new(
                t2.bits
                    .iter()
                    .zip(e2.bits.iter())
                    .map(|(x, y)| if x == y && !x.is_xz() { *x } else { X })
                    .collect(),
                s,
            ),
        }
    }

    // ------------------------------------------------------------------ concat / select
    /// `{a, b}`: a is the more significant part. Result is unsigned.
    pub fn concat(parts_msb_first: &[V]) -> V {
        let mut bits = vec![];
        for p in parts_msb_first.iter().rev() {
            bits.extend_from_slice(&p.bits);
        }
        V::new(bits, false)
    }
    pub fn repeat(&self, n: usize) -> V {
        let mut bits = vec![];
        for _ in 0..n {
            bits.extend_from_slice(&self.bits);
        }
        V::new(bits, false)
    }
    /// bits [lo +: w]; out-of-range positions read x (11.5.1). Result is unsigned.
    pub fn select(&self, lo: isize, w: usize) -> V {
        V::new(
            (0..w as isize)
                .map(|i| {
                    let p = lo + i;
                    if p < 0 || p as usize >= self.bits.len() { X } else { self.bits[p as usize] }
                })
                .collect(),
            false,
        )
    }
}

#[cfg(test)]
mod tests {
    use super::*;
    fn u(v: u128, w: usize) -> V {
        V::from_u128(v, w, false)
    }
    fn s(v: i128, w: usize) -> V {
        V::from_u128(v as u128, w, true)
    }
    #[test]
    fn arith() {
        assert_eq!(V::add(&u(15, 4), &u(1, 4), 0).to_u128(), Some(0));
        assert_eq!(V::add(&u(15, 4), &u(1, 4), 5).to_u128(), Some(16));
        assert_eq!(V::sub(&u(0, 4), &u(1, 4), 0).to_u128(), Some(15));
        assert_eq!(V::mul(&u(7, 4), &u(7, 4), 8).to_u128(), Some(49));
        assert_eq!(V::div(&s(-7, 4), &s(2, 4), 0), s(-3, 4));
        assert_eq!(V::rem(&s(-7, 4), &s(2, 4), 0), s(-1, 4));
        assert_eq!(V::rem(&s(7, 4), &s(-2, 4), 0), s(1, 4));
        assert!(V::div(&u(7, 4), &u(0, 4), 0).bits.iter().all(|b| *b == X));
        assert_eq!(V::div(&u(200, 8), &u(7, 8), 0).to_u128(), Some(28));
        assert_eq!(V::rem(&u(200, 8), &u(7, 8), 0).to_u128(), Some(4));
        // mixed signedness => unsigned
        assert_eq!(V::add(&s(-1, 4), &u(1, 8), 0).to_u128(), Some(16));
        assert_eq!(V::pow(&u(3, 4), &u(2, 4), 0).to_u128(), Some(9));
        assert_eq!(V::pow(&u(3, 4), &u(3, 4), 0).to_u128(), Some(27 & 15));
    }
    #[test]
    fn limbs_agree_with_serial() {
        // deterministic pseudo-random patterns (no external crate): xorshift
        let mut st = 0x9e3779b97f4a7c15u64;
        let mut next = || {
            st ^= st << 13;
            st ^= st >> 7;
            st ^= st << 17;
            st
        };
        for w in [1usize, 2, 3, 7, 8, 31, 32, 33, 63, 64, 65, 100, 127, 128, 129, 191, 192, 193, 200, 256, 300] {
            for round in 0..60 {
                let mut mk = |style: u64| -> Vec<Bit> {
                    (0..w)
                        .map(|i| match style % 5 {
                            0 => Bit::from_bool(next() & 1 == 1),
                            1 => One,
                            2 => Bit::from_bool(i == w - 1),
                            3 => Bit::from_bool(i % 64 == 63 || i % 64 == 0),
                            _ => Bit::from_bool(next() % 7 == 0),
                        })
                        .collect()
                };
                let a = mk(round);
                let b = mk(round / 5);
                assert_eq!(V::add_raw(&a, &b, false), V::add_serial(&a, &b, false), "add w={w}");
                assert_eq!(V::add_raw(&a, &b, true), V::add_serial(&a, &b, true), "add+1 w={w}");
                assert_eq!(V::neg_raw(&a), V::neg_serial(&a), "neg w={w}");
                assert_eq!(V::mul_raw(&a, &b), V::mul_serial(&a, &b), "mul w={w}");
                if b.iter().any(|x| *x == One) {
                    assert_eq!(V::divmod_raw(&a, &b), V::divmod_serial(&a, &b), "divmod w={w} a={a:?} b={b:?}");
                }
            }
        }
    }
    #[test]
    fn shifts() {
        assert_eq!(V::shift(&s(-8, 4), &u(1, 2), 0, false, true), s(-4, 4));
        assert_eq!(V::shift(&s(-8, 4), &u(1, 2), 0, false, false).to_u128(), Some(4));
        assert_eq!(V::shift(&u(8, 4), &u(1, 2), 0, false, true).to_u128(), Some(4));
        assert_eq!(V::shift(&u(9, 4), &u(1, 2), 0, true, false).to_u128(), Some(2));
        assert_eq!(V::shift(&u(9, 4), &u(1, 2), 6, true, false).to_u128(), Some(18));
        assert_eq!(V::shift(&u(9, 4), &u(7, 3), 0, true, false).to_u128(), Some(0));
    }
    #[test]
    fn rel_eq() {
        assert_eq!(V::lt(&s(-1, 4), &s(1, 4)).to_u128(), Some(1));
        assert_eq!(V::lt(&s(-1, 4), &u(1, 4)).to_u128(), Some(0));
        let a = V::from_str_msb("1x00", false);
        let b = V::from_str_msb("0x00", false);
        assert_eq!(V::eq2(&a, &b), (X, Zero));
        assert_eq!(V::eq2(&a, &a), (X, X));
        assert_eq!(V::case_eq(&a, &a).to_u128(), Some(1));
        assert_eq!(V::wild_eq2(&u(5, 4), &V::from_str_msb("01xx", false)), (One, One));
    }
}

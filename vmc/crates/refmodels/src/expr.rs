//! R1 applied to expression trees: IEEE 1800-2017 11.6 (expression bit lengths), 11.8
//! (signedness), 11.8.2 (steps for evaluating an expression): the self-determined width and type
//! are computed bottom-up, then the context width/type is pushed down to the context-determined
//! operands, operands are extended by their own signedness only when the propagated type is
//! signed, and the operators are applied at the context width.
//!
//! Shares no code with veryl.

use crate::bits::{Bit, V};

#[derive(Clone, Copy, Debug, PartialEq, Eq, Hash)]
pub enum Un {
    Plus,
    Neg,
    BitNot,
    RedAnd,
    RedNand,
    RedOr,
    RedNor,
    RedXor,
    RedXnor,
    LogNot,
}

#[derive(Clone, Copy, Debug, PartialEq, Eq, Hash)]
pub enum Bi {
    Add,
    Sub,
    Mul,
    Div,
    Rem,
    And,
    Or,
    Xor,
    Xnor,
    Shl,
    Shr,
    AShl,
    AShr,
    Pow,
    Lt,
    Le,
    Gt,
    Ge,
    Eq,
    Ne,
    WEq,
    WNe,
    LAnd,
    LOr,
}

#[derive(Clone, Debug)]
pub enum E {
    /// index into the environment
    Leaf(usize),
    Un(Un, Box<E>),
    Bi(Bi, Box<E>, Box<E>),
    /// size cast to a constant width; the operand is evaluated as if assigned to a variable of
    /// that width (6.24.1). The signedness of the result is that of the operand ("shall pass
    /// through unchanged") when `None`, or forced when `Some`.
    Cast(Box<E>, usize, Option<bool>),
    /// cond ? a : b
    Cond(Box<E>, Box<E>, Box<E>),
    /// {a, b, ...} (self-determined operands, unsigned result)
    Concat(Vec<E>),
}

/// Where the standard's wording admits two readings, which one to take.
#[derive(Clone, Copy, Debug, PartialEq, Eq, Hash)]
pub struct Reading {
    /// == != ==? !=? with x/z operands: false = x whenever an operand bit is x/z; true = 0 (1 for
    /// !=) when some bit position holds two known, different values
    pub eq_lenient: bool,
    /// unary plus of an operand with x/z bits: false = entire result x (11.4.2), true = "same as
    /// m" (Table 11-3)
    pub plus_same: bool,
}
pub type EqReading = Reading;

pub const READINGS: [Reading; 4] = [
    Reading { eq_lenient: false, plus_same: false },
    Reading { eq_lenient: true, plus_same: false },
    Reading { eq_lenient: false, plus_same: true },
    Reading { eq_lenient: true, plus_same: true },
];

fn arith(op: Bi) -> bool {
    matches!(op, Bi::Add | Bi::Sub | Bi::Mul | Bi::Div | Bi::Rem | Bi::And | Bi::Or | Bi::Xor | Bi::Xnor)
}
fn shift(op: Bi) -> bool {
    matches!(op, Bi::Shl | Bi::Shr | Bi::AShl | Bi::AShr | Bi::Pow)
}

pub fn self_width(e: &E, env: &[V]) -> usize {
    match e {
        E::Leaf(i) => env[*i].width(),
        E::Un(op, x) => match op {
            Un::Plus | Un::Neg | Un::BitNot => self_width(x, env),
            _ => 1,
        },
        E::Bi(op, l, r) => {
            if arith(*op) {
                self_width(l, env).max(self_width(r, env))
            } else if shift(*op) {
                self_width(l, env)
            } else {
                1
            }
        }
        E::Cast(_, w, _) => *w,
        E::Cond(_, a, b) => self_width(a, env).max(self_width(b, env)),
        E::Concat(xs) => xs.iter().map(|x| self_width(x, env)).sum(),
    }
}

pub fn self_signed(e: &E, env: &[V]) -> bool {
    match e {
        E::Leaf(i) => env[*i].signed,
        E::Un(op, x) => match op {
            Un::Plus | Un::Neg | Un::BitNot => self_signed(x, env),
            _ => false,
        },
        E::Bi(op, l, r) => {
            if arith(*op) {
                self_signed(l, env) && self_signed(r, env)
            } else if shift(*op) {
                self_signed(l, env)
            } else {
                false
            }
        }
        E::Cast(x, _, s) => s.unwrap_or_else(|| self_signed(x, env)),
        E::Cond(_, a, b) => self_signed(a, env) && self_signed(b, env),
        E::Concat(_) => false,
    }
}

fn bit1(b: Bit, w: usize) -> V {
    V::new(vec![b], false).resize(w)
}

/// Evaluates `e` in a context of width `w` (>= its self-determined width) and propagated
/// signedness `s`. The result has width `w` and signedness `s` for context-determined nodes;
/// 1-bit (zero-extended) unsigned results for self-determined ones.
pub fn eval(e: &E, env: &[V], w: usize, s: bool, rd: EqReading) -> V {
    match e {
        E::Leaf(i) => {
            let v = &env[*i];
            v.with_sign(v.signed && s).resize(w.max(v.width())).with_sign(s)
        }
        E::Un(op, x) => match op {
            Un::Plus => {
                let v = eval(x, env, w, s, rd);
                if rd.plus_same { v } else { V::plus(&v, w) }
            }
            Un::Neg => V::neg(&eval(x, env, w, s, rd), w),
            Un::BitNot => V::bit_not(&eval(x, env, w, s, rd), w),
            _ => {
                let v = eval_self(x, env, rd);
                let r = match op {
                    Un::RedAnd => v.red_and(),
                    Un::RedNand => v.red_nand(),
                    Un::RedOr => v.red_or(),
                    Un::RedNor => v.red_nor(),
                    Un::RedXor => v.red_xor(),
                    Un::RedXnor => v.red_xnor(),
                    _ => V::log_not(&v),
                };
                r.resize(w)
            }
        },
        E::Bi(op, l, r) => {
            if arith(*op) {
                let a = eval(l, env, w, s, rd);
                let b = eval(r, env, w, s, rd);
                match op {
                    Bi::Add => V::add(&a, &b, w),
                    Bi::Sub => V::sub(&a, &b, w),
                    Bi::Mul => V::mul(&a, &b, w),
                    Bi::Div => V::div(&a, &b, w),
                    Bi::Rem => V::rem(&a, &b, w),
                    Bi::And => V::bit_and(&a, &b, w),
                    Bi::Or => V::bit_or(&a, &b, w),
                    Bi::Xor => V::bit_xor(&a, &b, w),
                    _ => V::bit_xnor(&a, &b, w),
                }
            } else if shift(*op) {
                let a = eval(l, env, w, s, rd);
                let b = eval_self(r, env, rd);
                match op {
                    Bi::Shl => V::shift(&a, &b, w, true, false),
                    Bi::Shr => V::shift(&a, &b, w, false, false),
                    Bi::AShl => V::shift(&a, &b, w, true, true),
                    Bi::AShr => V::shift(&a, &b, w, false, true),
                    _ => V::pow(&a, &b, w),
                }
            } else if matches!(op, Bi::LAnd | Bi::LOr) {
                let a = eval_self(l, env, rd);
                let b = eval_self(r, env, rd);
                let r = if *op == Bi::LAnd { V::log_and(&a, &b) } else { V::log_or(&a, &b) };
                r.resize(w)
            } else {
                // relational / equality: operands sized to the larger of the two, type signed
                // only if both are
                let wl = self_width(l, env).max(self_width(r, env));
                let sl = self_signed(l, env) && self_signed(r, env);
                let a = eval(l, env, wl, sl, rd);
                let b = eval(r, env, wl, sl, rd);
                let pick = |p: (Bit, Bit)| if rd.eq_lenient { p.1 } else { p.0 };
                match op {
                    Bi::Lt => V::lt(&a, &b).resize(w),
                    Bi::Le => V::le(&a, &b).resize(w),
                    Bi::Gt => V::gt(&a, &b).resize(w),
                    Bi::Ge => V::ge(&a, &b).resize(w),
                    Bi::Eq => bit1(pick(V::eq2(&a, &b)), w),
                    Bi::Ne => bit1(pick(V::eq2(&a, &b)).not(), w),
                    Bi::WEq => bit1(pick(V::wild_eq2(&a, &b)), w),
                    _ => bit1(pick(V::wild_eq2(&a, &b)).not(), w),
                }
            }
        }
        E::Cast(x, cw, cs) => {
            let wi = self_width(x, env).max(*cw);
            let si = self_signed(x, env);
            let v = eval(x, env, wi, si, rd);
            // truncate or extend (by the operand's type) to the cast width, then take the cast type
            let cs = cs.unwrap_or(si);
            let c = v.with_sign(si).resize(*cw).with_sign(cs && s);
            c.resize(w.max(*cw)).with_sign(s)
        }
        E::Cond(c, a, b) => {
            let cv = eval_self(c, env, rd);
            let av = eval(a, env, w, s, rd);
            let bv = eval(b, env, w, s, rd);
            V::cond(&cv, &av, &bv, w)
        }
        E::Concat(xs) => {
            let parts: Vec<V> = xs.iter().map(|x| eval_self(x, env, rd)).collect();
            V::concat(&parts).resize(w)
        }
    }
}

pub fn eval_self(e: &E, env: &[V], rd: EqReading) -> V {
    eval(e, env, self_width(e, env), self_signed(e, env), rd)
}

/// `target = e` for an unsigned target of `wt` bits (10.7, 11.6: the right-hand side is
/// evaluated in a context at least as wide as the target, then truncated).
pub fn assign(e: &E, env: &[V], wt: usize, rd: EqReading) -> V {
    let w = self_width(e, env).max(wt);
    let s = self_signed(e, env);
    eval(e, env, w, s, rd).resize(wt).with_sign(false)
}

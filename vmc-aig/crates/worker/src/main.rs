//! vmc-aig-worker — the part of the C21 check that links `veryl-synthesizer` with feature `aig`.
//!
//! usage: vmc-aig-worker <quick|thorough> <out.json>
//!
//! Writes {"coverage": {...}, "violations": [...], "machinery": [...], "assumptions": [...]}.

mod aigfam;
mod designs;
mod netlist;
mod npn;

use serde_json::{Map, Value, json};
use std::collections::BTreeMap;

pub struct Out {
    pub coverage: Map<String, Value>,
    /// signature -> (count, first case)
    pub violations: BTreeMap<String, (u64, Value)>,
    pub machinery: Vec<String>,
    pub assumptions: Vec<String>,
    pub samples: Vec<Value>,
    /// replay mode: only this design is pushed through the netlist checks
    pub only_design: Option<designs::Design>,
}

impl Out {
    pub fn set(&mut self, k: &str, v: impl Into<Value>) {
        self.coverage.insert(k.to_string(), v.into());
    }
    pub fn violation(&mut self, sig: &str, what: String, case: Value, expected: Value, observed: Value) {
        let e = self.violations.entry(sig.to_string()).or_insert_with(|| {
            (
                0,
                json!({"signature": sig, "what": what, "case": case, "expected": expected, "observed": observed}),
            )
        });
        e.0 += 1;
    }
}

fn main() {
    let args: Vec<String> = std::env::args().collect();
    let thorough = args.get(1).map(|x| x == "thorough").unwrap_or(false);
    let out_path = args.get(2).cloned().unwrap_or_else(|| "/dev/stdout".to_string());
    if std::env::var("VMC_AIG_DEBUG").is_err() {
        std::panic::set_hook(Box::new(|_| {}));
    }
    let mut out = Out {
        coverage: Map::new(),
        violations: BTreeMap::new(),
        machinery: vec![],
        assumptions: vec![],
        samples: vec![],
        only_design: None,
    };
    if args.get(1).map(|x| x == "design").unwrap_or(false) {
        // usage: vmc-aig-worker design <code file> <out.json> [ram_min_bits]
        let code = std::fs::read_to_string(args.get(2).expect("code file")).expect("read design");
        out.only_design = Some(designs::Design {
            name: "replayed design".into(),
            code,
            top: "Top".into(),
            ram_min_bits: args.get(4).and_then(|x| x.parse().ok()),
        });
        netlist::run(&mut out, false, std::time::Instant::now() + std::time::Duration::from_secs(600));
        out.machinery.clear(); // vacuity guards are about the whole family
        finish(out, args.get(3).cloned().unwrap_or_else(|| "/dev/stdout".to_string()));
        return;
    }
    let t0 = std::time::Instant::now();
    npn::run(&mut out, thorough);
    out.set("npn_wall_s", t0.elapsed().as_secs_f64());
    let budget: f64 = std::env::var("VMC_AIG_BUDGET_S").ok().and_then(|x| x.parse().ok()).unwrap_or(if thorough { 1500.0 } else { 40.0 });
    let deadline = t0 + std::time::Duration::from_secs_f64(budget);
    out.set("budget_s", budget);
    // cheap exhaustive families first, the synthesized design family (the only part a budget can
    // shorten besides the AIG family) last
    let t1 = std::time::Instant::now();
    netlist::run_cells(&mut out);
    out.set("cellfam_wall_s", t1.elapsed().as_secs_f64());
    let t2 = std::time::Instant::now();
    // the AIG family may use at most 60 % of the budget
    let fam_deadline = t0 + std::time::Duration::from_secs_f64(budget * 0.6);
    aigfam::run(&mut out, thorough, fam_deadline);
    out.set("aigfam_wall_s", t2.elapsed().as_secs_f64());
    let t3 = std::time::Instant::now();
    netlist::run(&mut out, thorough, deadline);
    out.set("netlist_wall_s", t3.elapsed().as_secs_f64());

    finish(out, out_path);
}

fn finish(mut out: Out, out_path: String) {
    let samples = std::mem::take(&mut out.samples);
    out.set("samples", Value::Array(samples));
    let viol: Vec<Value> = out
        .violations
        .iter()
        .map(|(_, (n, v))| {
            let mut v = v.clone();
            v["cases"] = json!(n);
            v
        })
        .collect();
    let doc = json!({
        "coverage": Value::Object(out.coverage),
        "violations": viol,
        "machinery": out.machinery,
        "assumptions": out.assumptions,
    });
    std::fs::write(&out_path, serde_json::to_string_pretty(&doc).unwrap()).expect("write result");
}

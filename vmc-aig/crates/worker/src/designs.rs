//! Family of small synthesizable Veryl modules for the netlist part of C21.

#[derive(Clone, Debug)]
pub struct Design {
    pub name: String,
    pub code: String,
    pub top: String,
    pub ram_min_bits: Option<usize>,
}

fn d(name: impl Into<String>, code: String) -> Design {
    Design {
        name: name.into(),
        code,
        top: "Top".into(),
        ram_min_bits: None,
    }
}

fn comb(name: impl Into<String>, ports: &str, body: &str) -> Design {
    d(name, format!("module Top (\n{ports}\n) {{\n{body}\n}}\n"))
}

pub fn family(thorough: bool) -> Vec<Design> {
    let mut v: Vec<Design> = vec![];
    let wmax = if thorough { 6 } else { 4 };

    // ---- arithmetic
    for w in 1..=wmax {
        v.push(comb(
            format!("add{w}"),
            &format!("a: input logic<{w}>, b: input logic<{w}>, y: output logic<{w}>,"),
            "assign y = a + b;",
        ));
        v.push(comb(
            format!("addc{w}"),
            &format!("a: input logic<{w}>, b: input logic<{w}>, c: input logic, y: output logic<{}>,", w + 1),
            &format!("assign y = {{1'b0, a}} + {{1'b0, b}} + {{{}'d0, c}};", w),
        ));
        v.push(comb(
            format!("sub{w}"),
            &format!("a: input logic<{w}>, b: input logic<{w}>, y: output logic<{w}>,"),
            "assign y = a - b;",
        ));
        v.push(comb(format!("inc{w}"), &format!("a: input logic<{w}>, y: output logic<{w}>,"), "assign y = a + 1;"));
        v.push(comb(format!("neg{w}"), &format!("a: input logic<{w}>, y: output logic<{w}>,"), "assign y = ~a + 1;"));
    }
    for w in 2..=(if thorough { 4 } else { 3 }) {
        v.push(comb(
            format!("mul{w}"),
            &format!("a: input logic<{w}>, b: input logic<{w}>, y: output logic<{}>,", 2 * w),
            &format!("assign y = {{{w}'d0, a}} * {{{w}'d0, b}};"),
        ));
    }
    // ---- comparators
    for w in 1..=wmax {
        for (n, op) in [("lt", "<:"), ("le", "<="), ("gt", ">:"), ("ge", ">="), ("eq", "=="), ("ne", "!=")] {
            if !thorough && w == 3 && (n == "gt" || n == "ge") {
                continue;
            }
            v.push(comb(
                format!("cmp_{n}{w}"),
                &format!("a: input logic<{w}>, b: input logic<{w}>, y: output logic,"),
                &format!("assign y = a {op} b;"),
            ));
        }
    }
    for w in 2..=4 {
        v.push(comb(
            format!("scmp_lt{w}"),
            &format!("a: input signed logic<{w}>, b: input signed logic<{w}>, y: output logic,"),
            "assign y = a <: b;",
        ));
    }
    // ---- muxes
    for w in 1..=4 {
        v.push(comb(
            format!("mux2_{w}"),
            &format!("s: input logic, a: input logic<{w}>, b: input logic<{w}>, y: output logic<{w}>,"),
            "assign y = if s ? a : b;",
        ));
    }
    for w in 1..=3 {
        v.push(comb(
            format!("mux4_{w}"),
            &format!(
                "s: input logic<2>, a: input logic<{w}>, b: input logic<{w}>, c: input logic<{w}>, e: input logic<{w}>, y: output logic<{w}>,"
            ),
            "always_comb {\n  case s {\n    2'd0: y = a;\n    2'd1: y = b;\n    2'd2: y = c;\n    default: y = e;\n  }\n}",
        ));
    }
    v.push(comb(
        "mux_index",
        "s: input logic<3>, a: input logic<8>, y: output logic,",
        "assign y = a[s];",
    ));
    // ---- bitwise / reductions
    let exprs: &[(&str, &str)] = &[
        ("and_or", "(a & b) | c"),
        ("or_and", "(a | b) & c"),
        ("xor3", "a ^ b ^ c"),
        ("maj", "(a & b) | (a & c) | (b & c)"),
        ("nand_nor", "~(a & b) | ~(b | c)"),
        ("aoi", "~((a & b) | (c & e))"),
        ("oai", "~((a | b) & (c | e))"),
        ("xnor_mix", "~(a ^ b) & (c ^ e)"),
        ("mux_gate", "(a & b) | (~a & c)"),
        ("ao31", "(a & b & c) | e"),
        ("deep", "((a ^ b) & (c | e)) ^ ((a | c) & ~(b & e))"),
        ("redundant", "(a & b) | (a & ~b) | (c & c) | (e & ~e)"),
        ("demorgan", "~(~a & ~b) ^ ~(~c | ~e)"),
    ];
    for (n, e) in exprs {
        for w in [1usize, 2] {
            v.push(comb(
                format!("bit_{n}_{w}"),
                &format!("a: input logic<{w}>, b: input logic<{w}>, c: input logic<{w}>, e: input logic<{w}>, y: output logic<{w}>,"),
                &format!("assign y = {e};"),
            ));
        }
    }
    for w in [2usize, 3, 4, 5, 8] {
        v.push(comb(format!("red_and{w}"), &format!("a: input logic<{w}>, y: output logic,"), "assign y = &a;"));
        v.push(comb(format!("red_or{w}"), &format!("a: input logic<{w}>, y: output logic,"), "assign y = |a;"));
        v.push(comb(format!("parity{w}"), &format!("a: input logic<{w}>, y: output logic,"), "assign y = ^a;"));
    }
    // ---- shifts
    v.push(comb("shl4", "a: input logic<4>, s: input logic<2>, y: output logic<4>,", "assign y = a << s;"));
    v.push(comb("shr4", "a: input logic<4>, s: input logic<2>, y: output logic<4>,", "assign y = a >> s;"));
    v.push(comb(
        "sar4",
        "a: input signed logic<4>, s: input logic<2>, y: output signed logic<4>,",
        "assign y = a >>> s;",
    ));
    v.push(comb("rotl4", "a: input logic<4>, y: output logic<4>,", "assign y = {a[2:0], a[3]};"));
    // ---- encoders / decoders / counts
    v.push(comb(
        "prio4",
        "a: input logic<4>, y: output logic<2>, v: output logic,",
        "always_comb {\n  v = |a;\n  if a[3] { y = 2'd3; } else if a[2] { y = 2'd2; } else if a[1] { y = 2'd1; } else { y = 2'd0; }\n}",
    ));
    v.push(comb(
        "dec2to4",
        "a: input logic<2>, en: input logic, y: output logic<4>,",
        "always_comb {\n  y = 4'd0;\n  if en {\n    case a {\n      2'd0: y = 4'b0001;\n      2'd1: y = 4'b0010;\n      2'd2: y = 4'b0100;\n      default: y = 4'b1000;\n    }\n  }\n}",
    ));
    v.push(comb(
        "popcount4",
        "a: input logic<4>, y: output logic<3>,",
        "assign y = {2'd0, a[0]} + {2'd0, a[1]} + {2'd0, a[2]} + {2'd0, a[3]};",
    ));
    v.push(comb(
        "popcount6",
        "a: input logic<6>, y: output logic<3>,",
        "assign y = {2'd0, a[0]} + {2'd0, a[1]} + {2'd0, a[2]} + {2'd0, a[3]} + {2'd0, a[4]} + {2'd0, a[5]};",
    ));
    v.push(comb("gray_enc4", "a: input logic<4>, y: output logic<4>,", "assign y = a ^ (a >> 1);"));
    v.push(comb(
        "gray_dec4",
        "a: input logic<4>, y: output logic<4>,",
        "assign y = {a[3], a[3] ^ a[2], a[3] ^ a[2] ^ a[1], a[3] ^ a[2] ^ a[1] ^ a[0]};",
    ));
    v.push(comb("onehot4", "a: input logic<4>, y: output logic,", "assign y = (a != 0) && ((a & (a - 1)) == 0);"));
    v.push(comb(
        "abs4",
        "a: input signed logic<4>, y: output logic<4>,",
        "assign y = if a[3] ? ~a + 1 : a;",
    ));
    v.push(comb(
        "minmax3",
        "a: input logic<3>, b: input logic<3>, lo: output logic<3>, hi: output logic<3>,",
        "assign lo = if a <: b ? a : b;\nassign hi = if a <: b ? b : a;",
    ));
    v.push(comb(
        "alu2",
        "op: input logic<2>, a: input logic<3>, b: input logic<3>, y: output logic<3>,",
        "always_comb {\n  case op {\n    2'd0: y = a + b;\n    2'd1: y = a - b;\n    2'd2: y = a & b;\n    default: y = a ^ b;\n  }\n}",
    ));
    v.push(comb("const_out", "a: input logic<2>, y: output logic<2>, z: output logic,", "assign y = 2'b10;\nassign z = a[0] & ~a[0];"));
    v.push(comb("passthru", "a: input logic<3>, y: output logic<3>, z: output logic<3>,", "assign y = a;\nassign z = ~a;"));

    // ---- sequential
    let seq = |name: &str, ports: &str, decl: &str, ff: &str, tail: &str| -> Design {
        d(
            name,
            format!(
                "module Top (\n  clk: input clock,\n  rst: input reset,\n{ports}\n) {{\n{decl}\n  always_ff (clk, rst) {{\n{ff}\n  }}\n{tail}\n}}\n"
            ),
        )
    };
    for w in 2..=4 {
        v.push(seq(
            &format!("counter{w}"),
            &format!("  en: input logic,\n  q: output logic<{w}>,"),
            &format!("  var c: logic<{w}>;"),
            "    if_reset { c = 0; } else if en { c = c + 1; }",
            "  assign q = c;",
        ));
    }
    v.push(seq(
        "updown3",
        "  up: input logic,\n  en: input logic,\n  q: output logic<3>,",
        "  var c: logic<3>;",
        "    if_reset { c = 0; } else if en { if up { c = c + 1; } else { c = c - 1; } }",
        "  assign q = c;",
    ));
    v.push(seq(
        "loadable4",
        "  ld: input logic,\n  dd: input logic<4>,\n  q: output logic<4>,",
        "  var c: logic<4>;",
        "    if_reset { c = 4'd5; } else if ld { c = dd; } else { c = c + 1; }",
        "  assign q = c;",
    ));
    v.push(seq(
        "sat3",
        "  en: input logic,\n  q: output logic<3>,",
        "  var c: logic<3>;",
        "    if_reset { c = 0; } else if en && c != 3'd7 { c = c + 1; }",
        "  assign q = c;",
    ));
    v.push(seq(
        "lfsr4",
        "  q: output logic<4>,",
        "  var s: logic<4>;",
        "    if_reset { s = 4'd1; } else { s = {s[2:0], s[3] ^ s[2]}; }",
        "  assign q = s;",
    ));
    v.push(seq(
        "shiftreg4",
        "  si: input logic,\n  so: output logic,\n  q: output logic<4>,",
        "  var s: logic<4>;",
        "    if_reset { s = 0; } else { s = {s[2:0], si}; }",
        "  assign q = s;\n  assign so = s[3];",
    ));
    v.push(seq(
        "accum4",
        "  a: input logic<4>,\n  en: input logic,\n  q: output logic<4>,",
        "  var s: logic<4>;",
        "    if_reset { s = 0; } else if en { s = s + a; }",
        "  assign q = s;",
    ));
    v.push(seq(
        "edge_det",
        "  a: input logic,\n  rise: output logic,\n  fall: output logic,",
        "  var p: logic;",
        "    if_reset { p = 0; } else { p = a; }",
        "  assign rise = a & ~p;\n  assign fall = ~a & p;",
    ));
    v.push(seq(
        "fsm_seq101",
        "  a: input logic,\n  hit: output logic,",
        "  var st: logic<2>;",
        "    if_reset { st = 2'd0; } else {\n      case st {\n        2'd0: if a { st = 2'd1; }\n        2'd1: if !a { st = 2'd2; }\n        2'd2: if a { st = 2'd3; } else { st = 2'd0; }\n        default: if a { st = 2'd1; } else { st = 2'd2; }\n      }\n    }",
        "  assign hit = st == 2'd3;",
    ));
    v.push(seq(
        "fsm_traffic",
        "  car: input logic,\n  tmr: input logic,\n  light: output logic<2>,",
        "  var st: logic<2>;",
        "    if_reset { st = 2'd0; } else {\n      case st {\n        2'd0: if car { st = 2'd1; }\n        2'd1: if tmr { st = 2'd2; }\n        2'd2: if tmr { st = 2'd3; }\n        default: st = 2'd0;\n      }\n    }",
        "  assign light = st ^ {1'b0, st[1]};",
    ));
    v.push(seq(
        "fsm_onehot",
        "  go: input logic,\n  done: input logic,\n  busy: output logic,",
        "  var st: logic<3>;",
        "    if_reset { st = 3'b001; } else {\n      if st[0] && go { st = 3'b010; } else if st[1] { st = 3'b100; } else if st[2] && done { st = 3'b001; }\n    }",
        "  assign busy = st[1] | st[2];",
    ));
    v.push(seq(
        "two_regs",
        "  a: input logic<2>,\n  b: input logic<2>,\n  y: output logic<2>,",
        "  var r0: logic<2>;\n  var r1: logic<2>;",
        "    if_reset { r0 = 0; r1 = 0; } else { r0 = a ^ r1; r1 = (r0 & b) | (a & ~b); }",
        "  assign y = r0 + r1;",
    ));
    // no-reset flip-flops
    v.push(d(
        "ff_noreset",
        "module Top (\n  clk: input clock,\n  a: input logic<2>,\n  b: input logic<2>,\n  q: output logic<2>,\n) {\n  var r: logic<2>;\n  always_ff (clk) {\n    r = (a & b) | (r ^ a);\n  }\n  assign q = r;\n}\n".to_string(),
    ));
    // flip-flop clock / reset pins driven by logic (the AIG flow must keep those nets driven)
    v.push(d(
        "derived_reset",
        "module Top (\n  clk: input clock,\n  rst: input reset,\n  sft: input logic,\n  d: input logic,\n  q: output logic,\n) {\n  var grst: reset;\n  assign grst = rst | sft;\n  always_ff (clk, grst) {\n    if_reset { q = 0; } else { q = d ^ q; }\n  }\n}\n".to_string(),
    ));
    v.push(d(
        "gated_clock",
        "module Top (\n  clk: input 'a clock,\n  rst: input 'a reset,\n  en: input 'a logic,\n  d: input 'a logic,\n  q: output 'a logic,\n) {\n  var gclk: 'a clock;\n  assign gclk = clk & en;\n  always_ff (gclk, rst) {\n    if_reset { q = 0; } else { q = d ^ q; }\n  }\n}\n".to_string(),
    ));
    // register file small enough to stay flip-flops (address decode + read mux)
    v.push(d(
        "regfile_ff_4x2",
        "module Top (\n  clk: input clock,\n  we: input logic,\n  wa: input logic<2>,\n  wd: input logic<2>,\n  ra: input logic<2>,\n  rd: output logic<2>,\n) {\n  var mem: logic<2> [4];\n  always_ff (clk) {\n    if we {\n      mem[wa] = wd;\n    }\n  }\n  assign rd = mem[ra];\n}\n".to_string(),
    ));
    // register files that become RAM blocks (threshold lowered), with logic on every RAM pin
    for (depth, aw, w) in [(4usize, 2usize, 2usize), (8, 3, 2), (8, 3, 4)] {
        let mut x = d(
            format!("regfile_ram_{depth}x{w}"),
            format!(
                "module Top (\n  clk: input clock,\n  we: input logic,\n  k: input logic,\n  wa: input logic<{aw}>,\n  wb: input logic<{aw}>,\n  wd: input logic<{w}>,\n  ra: input logic<{aw}>,\n  rd: output logic<{w}>,\n  par: output logic,\n) {{\n  var mem: logic<{w}> [{depth}];\n  always_ff (clk) {{\n    if we & ~k {{\n      mem[wa ^ wb] = wd + {w}'d1;\n    }}\n  }}\n  let t: logic<{w}> = mem[ra + wb];\n  assign rd = t ^ wd;\n  assign par = ^t;\n}}\n"
            ),
        );
        x.ram_min_bits = Some(8);
        v.push(x);
    }
    let mut x = d(
        "regfile_ram_2r",
        "module Top (\n  clk: input clock,\n  we: input logic,\n  wa: input logic<3>,\n  wd: input logic<2>,\n  ra: input logic<3>,\n  rb: input logic<3>,\n  y: output logic<2>,\n) {\n  var mem: logic<2> [8];\n  always_ff (clk) {\n    if we {\n      mem[wa] = wd;\n    }\n  }\n  assign y = mem[ra] & ~mem[rb];\n}\n".to_string(),
    );
    x.ram_min_bits = Some(8);
    v.push(x);
    // ---- inout ports (read-only pads): `aigify` emits a sink per inout bit, so every later stage
    // must count Output AND Inout bits when it splits the sink list into ports / FF D / RAM pins.
    // One pad and two pads, in front of and between the other ports, with flip-flops, with a
    // flip-flop-free cone, and with an inferred RAM behind them.
    for (n, pads) in [("1", "  pad: inout tri logic,"), ("2", "  pad: inout tri logic,\n  pad2: inout tri logic<2>,")] {
        let p2 = if n == "2" { " ^ pad2[0]" } else { "" };
        let p3 = if n == "2" { " | pad2[1]" } else { "" };
        v.push(d(
            format!("inout{n}_ff"),
            format!(
                "module Top (\n  clk: input clock,\n  rst: input reset,\n{pads}\n  d: input logic<2>,\n  q: output logic<2>,\n) {{\n  var r: logic<2>;\n  always_ff (clk, rst) {{\n    if_reset {{\n      r = 0;\n    }} else {{\n      r[0] = d[0] | pad{p2};\n      r[1] = (d[1] & pad){p3};\n    }}\n  }}\n  assign q = r;\n}}\n"
            ),
        ));
        v.push(d(
            format!("inout{n}_ff_after"),
            format!(
                "module Top (\n  clk: input clock,\n  rst: input reset,\n  d: input logic<3>,\n  q: output logic<3>,\n  y: output logic,\n{pads}\n) {{\n  var r: logic<3>;\n  always_ff (clk, rst) {{\n    if_reset {{\n      r = 3'd5;\n    }} else {{\n      r = {{d[2] ^ pad, d[1] & ~pad{p3}, d[0] | r[2]}};\n    }}\n  }}\n  assign q = r;\n  assign y = ^r{p2};\n}}\n"
            ),
        ));
        v.push(d(
            format!("inout{n}_comb"),
            format!(
                "module Top (\n{pads}\n  a: input logic<2>,\n  y: output logic<2>,\n) {{\n  assign y = {{a[1] & pad{p3}, a[0] ^ pad{p2}}};\n}}\n"
            ),
        ));
        let mut x = d(
            format!("inout{n}_ram"),
            format!(
                "module Top (\n  clk: input clock,\n{pads}\n  we: input logic,\n  wa: input logic<3>,\n  wd: input logic<2>,\n  ra: input logic<3>,\n  rd: output logic<2>,\n) {{\n  var mem: logic<2> [8];\n  var cnt: logic<2>;\n  always_ff (clk) {{\n    if we & pad {{\n      mem[wa] = wd{p2};\n    }}\n    cnt = cnt + {{1'b0, pad}};\n  }}\n  assign rd = mem[ra] ^ cnt;\n}}\n"
            ),
        );
        x.ram_min_bits = Some(8);
        v.push(x);
    }
    v
}

//! Exhaustive checks of `veryl_synthesizer::aig::npn4` over all 65 536 4-input truth tables.

use crate::Out;
use rayon::prelude::*;
use serde_json::json;
use std::collections::BTreeSet;
use veryl_synthesizer::aig::npn4::{self, AigPattern, NpnTransform, PatEdge, Tt4};

/// All 24 permutations of 0..4, generated here (not taken from the crate).
fn perms() -> Vec<[u8; 4]> {
    let mut v = vec![];
    for a in 0..4u8 {
        for b in 0..4u8 {
            for c in 0..4u8 {
                for d in 0..4u8 {
                    let p = [a, b, c, d];
                    let mut seen = [false; 4];
                    for x in p {
                        seen[x as usize] = true;
                    }
                    if seen.iter().all(|x| *x) {
                        v.push(p);
                    }
                }
            }
        }
    }
    v
}

/// Reference reading of an NPN transform, from the doc comments of `NpnTransform`:
/// result(y) = out_neg XOR tt(z) with z_{perm[i]} = y_i XOR in_neg_i.
fn ref_apply(tt: Tt4, perm: [u8; 4], in_neg: u8, out_neg: bool) -> Tt4 {
    let mut r: u16 = 0;
    for y in 0..16u16 {
        let mut z = 0u16;
        for i in 0..4 {
            let yi = ((y >> i) & 1) ^ ((in_neg as u16 >> i) & 1);
            z |= yi << perm[i];
        }
        let v = ((tt >> z) & 1) ^ (out_neg as u16);
        r |= v << y;
    }
    r
}

/// Least member of the NPN orbit of `tt`, by brute force over the 768 transforms.
fn orbit_min(tt: Tt4, perms: &[[u8; 4]]) -> Tt4 {
    let mut best = u16::MAX;
    for p in perms {
        for n in 0..16u8 {
            let g = ref_apply(tt, *p, n, false);
            best = best.min(g).min(!g);
        }
    }
    best
}

/// Own evaluation of a pattern on the 16 minterms.
fn ref_eval(p: &AigPattern) -> Option<Tt4> {
    let mut r = 0u16;
    for m in 0..16u16 {
        let mut vals: Vec<bool> = (0..4).map(|i| (m >> i) & 1 == 1).collect();
        for (a, b) in &p.ands {
            let get = |e: &PatEdge, vals: &Vec<bool>| -> Option<bool> { vals.get(e.0 as usize).map(|v| *v ^ e.1) };
            let va = get(a, &vals)?;
            let vb = get(b, &vals)?;
            vals.push(va && vb);
        }
        let o = vals.get(p.output.0 as usize).map(|v| *v ^ p.output.1)?;
        r |= (o as u16) << m;
    }
    Some(r)
}

fn is_perm(p: [u8; 4]) -> bool {
    let mut seen = [false; 4];
    for x in p {
        if x > 3 {
            return false;
        }
        seen[x as usize] = true;
    }
    seen.iter().all(|x| *x)
}

pub fn run(out: &mut Out, thorough: bool) {
    let perms = perms();
    assert_eq!(perms.len(), 24);

    #[derive(Default)]
    struct R {
        bad_map: Vec<(u16, String)>,
        bad_min: Vec<(u16, u16, u16)>,
        bad_sem: Vec<(u16, String)>,
        bad_inverse: Vec<(u16, String)>,
        canon: BTreeSet<u16>,
        out_neg_used: u64,
        nonidentity: u64,
        inverse_checked: u64,
    }
    let results: Vec<R> = (0..=65535u32)
        .into_par_iter()
        .fold(R::default, |mut r, tt| {
            let tt = tt as u16;
            let (c, t) = npn4::npn_canonical(tt);
            r.canon.insert(c);
            if t.out_neg {
                r.out_neg_used += 1;
            }
            if t != NpnTransform::IDENTITY {
                r.nonidentity += 1;
            }
            if !is_perm(t.perm) || t.in_neg > 15 {
                r.bad_map.push((tt, format!("malformed transform {t:?}")));
                return r;
            }
            let applied = t.apply(tt);
            if applied != c {
                r.bad_map.push((tt, format!("transform {t:?}: apply(tt) = {applied:#06x}, canonical = {c:#06x}")));
            }
            let m = orbit_min(tt, &perms);
            if m != c {
                r.bad_min.push((tt, c, m));
            }
            let sem = ref_apply(tt, t.perm, t.in_neg, t.out_neg);
            if sem != applied {
                r.bad_sem.push((tt, format!("transform {t:?}: apply = {applied:#06x}, documented reading = {sem:#06x}")));
            }
            // inverse transform + transform_pattern
            if let Some(p) = npn4::lookup_canonical(c) {
                let mut inv = [0u8; 4];
                for (i, &q) in t.perm.iter().enumerate() {
                    inv[q as usize] = i as u8;
                }
                let mut n2 = 0u8;
                for i in 0..4 {
                    if (t.in_neg >> i) & 1 == 1 {
                        n2 |= 1 << t.perm[i];
                    }
                }
                let u = NpnTransform {
                    perm: inv,
                    in_neg: n2,
                    out_neg: t.out_neg,
                };
                r.inverse_checked += 1;
                if u.apply(c) != tt {
                    r.bad_inverse.push((tt, format!("inverse {u:?} of {t:?}: apply(canonical) = {:#06x}", u.apply(c))));
                } else {
                    let q = npn4::transform_pattern(p, u);
                    match ref_eval(&q) {
                        Some(f) if f == tt => {}
                        other => r.bad_inverse.push((
                            tt,
                            format!("transform_pattern(library[{c:#06x}], {u:?}) evaluates to {other:?}, original function {tt:#06x}"),
                        )),
                    }
                }
            }
            r
        })
        .collect();
    let mut tot = R::default();
    for r in results {
        tot.bad_map.extend(r.bad_map);
        tot.bad_min.extend(r.bad_min);
        tot.bad_sem.extend(r.bad_sem);
        tot.bad_inverse.extend(r.bad_inverse);
        tot.canon.extend(r.canon);
        tot.out_neg_used += r.out_neg_used;
        tot.nonidentity += r.nonidentity;
        tot.inverse_checked += r.inverse_checked;
    }
    tot.bad_map.sort();
    tot.bad_min.sort();
    tot.bad_sem.sort();
    tot.bad_inverse.sort();
    for (tt, w) in &tot.bad_map {
        out.violation(
            "C21:npn-transform-does-not-map-to-canonical",
            format!("npn_canonical({tt:#06x}): {w}"),
            json!({"tt": tt}),
            json!("t.apply(tt) == canonical"),
            json!(w),
        );
    }
    for (tt, c, m) in &tot.bad_min {
        out.violation(
            "C21:npn-canonical-not-least-of-class",
            format!("npn_canonical({tt:#06x}) = {c:#06x} but the least truth table of the NPN class is {m:#06x}"),
            json!({"tt": tt}),
            json!(m),
            json!(c),
        );
    }
    for (tt, w) in &tot.bad_sem {
        out.violation(
            "C21:npn-apply-differs-from-documented-transform",
            format!("tt {tt:#06x}: {w}"),
            json!({"tt": tt}),
            json!("out_neg ^ tt(z), z[perm[i]] = y[i] ^ in_neg[i]"),
            json!(w),
        );
    }
    for (tt, w) in &tot.bad_inverse {
        out.violation(
            "C21:transform-pattern-inverse-wrong-function",
            format!("tt {tt:#06x}: {w}"),
            json!({"tt": tt}),
            json!("pattern computing the original function"),
            json!(w),
        );
    }

    // library: every entry evaluates to its key; transform_pattern contract for all 768 transforms
    let mut lib_classes = 0u64;
    let mut lib_sizes: BTreeSet<usize> = BTreeSet::new();
    let mut tp_checks = 0u64;
    for &c in &tot.canon {
        let Some(p) = npn4::lookup_canonical(c) else { continue };
        lib_classes += 1;
        lib_sizes.insert(p.size());
        let own = ref_eval(p);
        if own != Some(c) || p.tt() != c {
            out.violation(
                "C21:library-pattern-wrong-truth-table",
                format!("library entry for canonical {c:#06x} evaluates to {own:?} (AigPattern::tt says {:#06x}): {p:?}", p.tt()),
                json!({"canonical": c}),
                json!(c),
                json!(own),
            );
        }
        // structure: fanins refer to earlier nodes only
        for (k, (a, b)) in p.ands.iter().enumerate() {
            if a.0 as usize >= 4 + k || b.0 as usize >= 4 + k {
                out.violation(
                    "C21:library-pattern-malformed",
                    format!("library entry {c:#06x}: AND #{k} refers to a later node: {p:?}"),
                    json!({"canonical": c}),
                    json!("topological pattern"),
                    json!(format!("{p:?}")),
                );
            }
        }
        if p.size() > npn4::MAX_ANDS as usize {
            out.violation(
                "C21:library-pattern-malformed",
                format!("library entry {c:#06x} has {} ANDs > MAX_ANDS", p.size()),
                json!({"canonical": c}),
                json!(npn4::MAX_ANDS),
                json!(p.size()),
            );
        }
        for perm in &perms {
            for n in 0..16u8 {
                for o in [false, true] {
                    let u = NpnTransform {
                        perm: *perm,
                        in_neg: n,
                        out_neg: o,
                    };
                    let want = ref_apply(c, *perm, n, o);
                    let got = ref_eval(&npn4::transform_pattern(p, u));
                    tp_checks += 1;
                    if got != Some(want) {
                        out.violation(
                            "C21:transform-pattern-contract",
                            format!("transform_pattern(library[{c:#06x}], {u:?}) evaluates to {got:?}, the transformed function is {want:#06x}"),
                            json!({"canonical": c, "transform": format!("{u:?}")}),
                            json!(want),
                            json!(got),
                        );
                    }
                }
            }
        }
    }

    // documented reading of apply for *all* 768 transforms (thorough: all tts; quick: every 16th)
    let step = if thorough { 1 } else { 16 };
    let sem_bad: Vec<(u16, String)> = (0..=65535u32)
        .into_par_iter()
        .filter(|tt| tt % step == 0)
        .flat_map_iter(|tt| {
            let tt = tt as u16;
            let mut bad = vec![];
            for perm in &perms {
                for n in 0..16u8 {
                    for o in [false, true] {
                        let u = NpnTransform {
                            perm: *perm,
                            in_neg: n,
                            out_neg: o,
                        };
                        if u.apply(tt) != ref_apply(tt, *perm, n, o) && bad.is_empty() {
                            bad.push((tt, format!("{u:?}")));
                        }
                    }
                }
            }
            bad
        })
        .collect();
    for (tt, w) in &sem_bad {
        out.violation(
            "C21:npn-apply-differs-from-documented-transform",
            format!("tt {tt:#06x}, transform {w}"),
            json!({"tt": tt}),
            json!("out_neg ^ tt(z), z[perm[i]] = y[i] ^ in_neg[i]"),
            json!(w),
        );
    }

    for tt in [0x6996u16, 0xCACA, 0x8000, 0x1234] {
        let (c, t) = npn4::npn_canonical(tt);
        out.samples.push(json!({"kind": "npn", "tt": format!("{tt:#06x}"), "canonical": format!("{c:#06x}"), "transform": format!("{t:?}"),
            "library_pattern": npn4::lookup_canonical(c).map(|p| format!("{p:?}"))}));
    }
    out.set("npn_truth_tables", 65536u64);
    out.set("npn_classes", tot.canon.len() as u64);
    out.set("npn_transforms_with_output_negation", tot.out_neg_used);
    out.set("npn_non_identity_transforms", tot.nonidentity);
    out.set("npn_apply_semantics_evaluations", (65536 / step as u64) * 768);
    out.set("library_classes_with_pattern", lib_classes);
    out.set("library_pattern_sizes", json!(lib_sizes.iter().collect::<Vec<_>>()));
    out.set("transform_pattern_contract_checks", tp_checks);
    out.set("transform_pattern_inverse_checks", tot.inverse_checked);
    if tot.bad_min.is_empty() && tot.canon.len() != 222 {
        out.machinery.push(format!(
            "vacuity/consistency guard: {} NPN classes of 4-input functions observed, 222 exist",
            tot.canon.len()
        ));
    }
    if lib_classes < 10 || tot.inverse_checked == 0 || tot.out_neg_used == 0 {
        out.machinery.push("vacuity guard: library or transforms not exercised".into());
    }
}

//! Netlist part of C21: real synthesizer -> aigify -> rewrite -> techmap, sink functions compared
//! by exhaustive truth tables over the cone inputs.

use crate::Out;
use crate::designs::{Design, family};
use rayon::prelude::*;
use serde_json::{Value, json};
use std::collections::{BTreeMap, BTreeSet, HashMap};
use veryl_synthesizer::aig::convert::{aig_to_cells, aigify};
use veryl_synthesizer::aig::graph::{AigEdge, AigModule, AigNode};
use veryl_synthesizer::aig::rewrite::rewrite;
use veryl_synthesizer::aig::techmap::aig_to_cells_techmap;
use veryl_synthesizer::ir::{Cell, CellKind, GateModule, GatePort, NetDriver, NetId, NetInfo, PortDir};
use veryl_synthesizer::{RamConfig, build_gate_ir_with};

const MAX_INPUTS: usize = 16;

type Bits = Vec<u64>;

fn var_bits(i: usize, k: usize) -> Bits {
    let words = if k <= 6 { 1 } else { 1usize << (k - 6) };
    const PAT: [u64; 6] = [
        0xAAAA_AAAA_AAAA_AAAA,
        0xCCCC_CCCC_CCCC_CCCC,
        0xF0F0_F0F0_F0F0_F0F0,
        0xFF00_FF00_FF00_FF00,
        0xFFFF_0000_FFFF_0000,
        0xFFFF_FFFF_0000_0000,
    ];
    (0..words)
        .map(|w| if i < 6 { PAT[i] } else if (w >> (i - 6)) & 1 == 1 { !0u64 } else { 0 })
        .collect()
}

fn mask_bits(mut b: Bits, k: usize) -> Bits {
    if k < 6 {
        let m = (1u64 << (1 << k)) - 1;
        b[0] &= m;
    }
    b
}

fn zip(a: &Bits, b: &Bits, f: impl Fn(u64, u64) -> u64) -> Bits {
    a.iter().zip(b.iter()).map(|(x, y)| f(*x, *y)).collect()
}
fn not(a: &Bits) -> Bits {
    a.iter().map(|x| !*x).collect()
}

/// Own semantics of the cell kinds, from the doc comments in ir.rs.
fn cell_fn(kind: CellKind, i: &[Bits]) -> Bits {
    use CellKind::*;
    let and = |a: &Bits, b: &Bits| zip(a, b, |x, y| x & y);
    let or = |a: &Bits, b: &Bits| zip(a, b, |x, y| x | y);
    let xor = |a: &Bits, b: &Bits| zip(a, b, |x, y| x ^ y);
    match kind {
        Buf => i[0].clone(),
        Not => not(&i[0]),
        And2 => and(&i[0], &i[1]),
        Or2 => or(&i[0], &i[1]),
        Nand2 => not(&and(&i[0], &i[1])),
        Nor2 => not(&or(&i[0], &i[1])),
        Xor2 => xor(&i[0], &i[1]),
        Xnor2 => not(&xor(&i[0], &i[1])),
        And3 => and(&and(&i[0], &i[1]), &i[2]),
        Or3 => or(&or(&i[0], &i[1]), &i[2]),
        Nand3 => not(&and(&and(&i[0], &i[1]), &i[2])),
        Nor3 => not(&or(&or(&i[0], &i[1]), &i[2])),
        Ao21 => or(&and(&i[0], &i[1]), &i[2]),
        Aoi21 => not(&or(&and(&i[0], &i[1]), &i[2])),
        Oa21 => and(&or(&i[0], &i[1]), &i[2]),
        Oai21 => not(&and(&or(&i[0], &i[1]), &i[2])),
        Ao31 => or(&and(&and(&i[0], &i[1]), &i[2]), &i[3]),
        Aoi31 => not(&or(&and(&and(&i[0], &i[1]), &i[2]), &i[3])),
        Ao22 => or(&and(&i[0], &i[1]), &and(&i[2], &i[3])),
        Aoi22 => not(&or(&and(&i[0], &i[1]), &and(&i[2], &i[3]))),
        Oai22 => not(&and(&or(&i[0], &i[1]), &or(&i[2], &i[3]))),
        // inputs = [sel, d_when_sel_0, d_when_sel_1]
        Mux2 => {
            let s = &i[0];
            zip(&zip(s, &i[2], |s, d| s & d), &zip(s, &i[1], |s, d| !s & d), |a, b| a | b)
        }
    }
}

/// Free variables of the cone of `net` in a gate module.
fn gate_cone(g: &GateModule, net: NetId, acc: &mut BTreeSet<NetId>, seen: &mut BTreeSet<NetId>) {
    if !seen.insert(net) {
        return;
    }
    match &g.nets[net as usize].driver {
        NetDriver::Const(_) => {}
        NetDriver::Cell(i) => {
            for &n in &g.cells[*i].inputs {
                gate_cone(g, n, acc, seen);
            }
        }
        _ => {
            acc.insert(net);
        }
    }
}

fn gate_eval(g: &GateModule, net: NetId, vars: &[NetId], memo: &mut HashMap<NetId, Bits>) -> Bits {
    if let Some(b) = memo.get(&net) {
        return b.clone();
    }
    let k = vars.len();
    let words = if k <= 6 { 1 } else { 1usize << (k - 6) };
    let r = match &g.nets[net as usize].driver {
        NetDriver::Const(b) => vec![if *b { !0u64 } else { 0 }; words],
        NetDriver::Cell(i) => {
            let c = &g.cells[*i];
            let ins: Vec<Bits> = c.inputs.iter().map(|&n| gate_eval(g, n, vars, memo)).collect();
            cell_fn(c.kind, &ins)
        }
        _ => {
            let i = vars.iter().position(|v| *v == net).expect("cone input in variable list");
            var_bits(i, k)
        }
    };
    memo.insert(net, r.clone());
    r
}

fn aig_cone(a: &AigModule, e: AigEdge, acc: &mut BTreeSet<NetId>, seen: &mut BTreeSet<u32>) {
    if !seen.insert(e.node()) {
        return;
    }
    match &a.nodes[e.node() as usize] {
        AigNode::Const => {}
        AigNode::Input { origin } => {
            acc.insert(*origin);
        }
        AigNode::And { fanin0, fanin1 } => {
            aig_cone(a, *fanin0, acc, seen);
            aig_cone(a, *fanin1, acc, seen);
        }
    }
}

fn aig_eval(a: &AigModule, e: AigEdge, vars: &[NetId], memo: &mut HashMap<u32, Bits>) -> Bits {
    let k = vars.len();
    let words = if k <= 6 { 1 } else { 1usize << (k - 6) };
    let base = if let Some(b) = memo.get(&e.node()) {
        b.clone()
    } else {
        let b = match &a.nodes[e.node() as usize] {
            AigNode::Const => vec![0u64; words],
            AigNode::Input { origin } => {
                let i = vars.iter().position(|v| v == origin).expect("aig input in variable list");
                var_bits(i, k)
            }
            AigNode::And { fanin0, fanin1 } => {
                let x = aig_eval(a, *fanin0, vars, memo);
                let y = aig_eval(a, *fanin1, vars, memo);
                zip(&x, &y, |p, q| p & q)
            }
        };
        memo.insert(e.node(), b.clone());
        b
    };
    if e.is_negated() { not(&base) } else { base }
}

/// The nets whose functions must be preserved, in the order aigify registers its sinks.
fn sink_nets(g: &GateModule) -> Vec<(String, NetId)> {
    let mut v = vec![];
    for p in &g.ports {
        if matches!(p.dir, PortDir::Output | PortDir::Inout) {
            for (i, &n) in p.nets.iter().enumerate() {
                v.push((format!("port {}[{}]", p.name, i), n));
            }
        }
    }
    for (i, ff) in g.ffs.iter().enumerate() {
        v.push((format!("ff#{i}.d"), ff.d));
    }
    let mut k = 0;
    g.for_each_ram_input_net(|n| {
        v.push((format!("ram-input#{k}"), n));
        k += 1;
    });
    v
}

fn ff_side_nets(g: &GateModule) -> Vec<(String, NetId)> {
    let mut v = vec![];
    for (i, ff) in g.ffs.iter().enumerate() {
        v.push((format!("ff#{i}.clock"), ff.clock));
        if let Some(r) = &ff.reset {
            v.push((format!("ff#{i}.reset"), r.net));
        }
    }
    v
}

#[derive(Default)]
pub struct DStats {
    sinks_compared: u64,
    sinks_skipped_wide: u64,
    nontrivial_sinks: u64,
    cells_before: u64,
    ands_before: u64,
    ands_after: u64,
    rams: u64,
    ffs: u64,
    kinds: BTreeSet<String>,
    rewrite_changed: bool,
}

struct Finding {
    sig: String,
    what: String,
    expected: Value,
    observed: Value,
}

fn first_diff(a: &Bits, b: &Bits, k: usize) -> Option<u64> {
    let a = mask_bits(a.clone(), k);
    let b = mask_bits(b.clone(), k);
    for (w, (x, y)) in a.iter().zip(b.iter()).enumerate() {
        if x != y {
            return Some(w as u64 * 64 + (x ^ y).trailing_zeros() as u64);
        }
    }
    None
}

fn compare_gate_gate(
    stage: &str,
    a: &GateModule,
    b: &GateModule,
    pairs: &[(String, NetId, NetId)],
    st: &mut DStats,
    out: &mut Vec<Finding>,
) {
    for (label, na, nb) in pairs {
        let mut vars = BTreeSet::new();
        gate_cone(a, *na, &mut vars, &mut BTreeSet::new());
        let before_only = vars.len();
        gate_cone(b, *nb, &mut vars, &mut BTreeSet::new());
        if vars.len() > MAX_INPUTS {
            st.sinks_skipped_wide += 1;
            continue;
        }
        let vars: Vec<NetId> = vars.into_iter().collect();
        let fa = gate_eval(a, *na, &vars, &mut HashMap::new());
        let fb = gate_eval(b, *nb, &vars, &mut HashMap::new());
        st.sinks_compared += 1;
        if before_only >= 2 {
            st.nontrivial_sinks += 1;
        }
        if let Some(m) = first_diff(&fa, &fb, vars.len()) {
            let kind = label.split(['#', ' ', '.']).next().unwrap_or("").to_string();
            let pin = if label.contains(".clock") {
                "ff-clock"
            } else if label.contains(".reset") {
                "ff-reset"
            } else if label.contains(".d") {
                "ff-d"
            } else if kind == "ram-input" {
                "ram-input"
            } else {
                "output"
            };
            let assign: Vec<String> = vars.iter().enumerate().map(|(i, v)| format!("net{}={}", v, (m >> i) & 1)).collect();
            let is_undriven = matches!(b.nets[*nb as usize].driver, NetDriver::Undriven) && !matches!(a.nets[*na as usize].driver, NetDriver::Undriven);
            out.push(Finding {
                sig: format!("C21:{stage}-changes-function:{pin}{}", if is_undriven { ":left-undriven" } else { "" }),
                what: format!("{label}: Boolean function differs after {stage} for input assignment {}", assign.join(" ")),
                expected: json!(format!("value {}", (fa[(m / 64) as usize] >> (m % 64)) & 1)),
                observed: json!(format!("value {}", (fb[(m / 64) as usize] >> (m % 64)) & 1)),
            });
        }
    }
}

fn compare_gate_aig(stage: &str, g: &GateModule, a: &AigModule, sinks: &[(String, NetId)], st: &mut DStats, out: &mut Vec<Finding>) {
    if a.sinks.len() != sinks.len() {
        out.push(Finding {
            sig: format!("C21:{stage}-sink-count"),
            what: format!("{} sinks in the AIG, {} outputs / FF inputs / RAM inputs in the netlist", a.sinks.len(), sinks.len()),
            expected: json!(sinks.len()),
            observed: json!(a.sinks.len()),
        });
        return;
    }
    for ((label, net), s) in sinks.iter().zip(a.sinks.iter()) {
        let mut vars = BTreeSet::new();
        gate_cone(g, *net, &mut vars, &mut BTreeSet::new());
        aig_cone(a, s.edge, &mut vars, &mut BTreeSet::new());
        if vars.len() > MAX_INPUTS {
            st.sinks_skipped_wide += 1;
            continue;
        }
        let vars: Vec<NetId> = vars.into_iter().collect();
        let fa = gate_eval(g, *net, &vars, &mut HashMap::new());
        let fb = aig_eval(a, s.edge, &vars, &mut HashMap::new());
        st.sinks_compared += 1;
        if let Some(m) = first_diff(&fa, &fb, vars.len()) {
            out.push(Finding {
                sig: format!("C21:{stage}-changes-function"),
                what: format!("{label}: AIG sink differs from the netlist function at assignment index {m} over nets {vars:?}"),
                expected: json!("same function"),
                observed: json!(m),
            });
        }
    }
}

fn compare_aig_aig(stage: &str, a: &AigModule, b: &AigModule, st: &mut DStats, out: &mut Vec<Finding>) {
    if a.sinks.len() != b.sinks.len() {
        out.push(Finding {
            sig: format!("C21:{stage}-sink-count"),
            what: format!("{} sinks before, {} after", a.sinks.len(), b.sinks.len()),
            expected: json!(a.sinks.len()),
            observed: json!(b.sinks.len()),
        });
        return;
    }
    for (i, (sa, sb)) in a.sinks.iter().zip(b.sinks.iter()).enumerate() {
        if sa.target != sb.target {
            out.push(Finding {
                sig: format!("C21:{stage}-sink-target"),
                what: format!("sink #{i} targets net {} before and net {} after", sa.target, sb.target),
                expected: json!(sa.target),
                observed: json!(sb.target),
            });
            continue;
        }
        let mut vars = BTreeSet::new();
        aig_cone(a, sa.edge, &mut vars, &mut BTreeSet::new());
        aig_cone(b, sb.edge, &mut vars, &mut BTreeSet::new());
        if vars.len() > MAX_INPUTS {
            st.sinks_skipped_wide += 1;
            continue;
        }
        let vars: Vec<NetId> = vars.into_iter().collect();
        let fa = aig_eval(a, sa.edge, &vars, &mut HashMap::new());
        let fb = aig_eval(b, sb.edge, &vars, &mut HashMap::new());
        st.sinks_compared += 1;
        if let Some(m) = first_diff(&fa, &fb, vars.len()) {
            out.push(Finding {
                sig: format!("C21:{stage}-changes-function"),
                what: format!("sink #{i} (net {}): function differs at assignment index {m} over nets {vars:?}", sa.target),
                expected: json!("same function"),
                observed: json!(m),
            });
        }
    }
}

fn and_count(a: &AigModule) -> u64 {
    a.and_count() as u64
}

/// One pass of the flow on netlist `g`; returns the tech-mapped netlist.
fn check_flow(tag: &str, g: &GateModule, st: &mut DStats, out: &mut Vec<Finding>) -> GateModule {
    let sinks = sink_nets(g);
    let a0 = aigify(g);
    compare_gate_aig(&format!("{tag}aigify"), g, &a0, &sinks, st, out);
    let a1 = rewrite(&a0);
    compare_aig_aig(&format!("{tag}rewrite"), &a0, &a1, st, out);
    st.ands_before += and_count(&a0);
    st.ands_after += and_count(&a1);
    if and_count(&a1) != and_count(&a0) {
        st.rewrite_changed = true;
    }
    let g2 = aig_to_cells_techmap(&a1, g);
    let g3 = aig_to_cells(&a1, g);
    for (stage, gg) in [("rewrite+techmap", &g2), ("rewrite+aig_to_cells", &g3)] {
        let after = sink_nets(gg);
        if after.len() != sinks.len() || gg.ffs.len() != g.ffs.len() || gg.ram_blocks.len() != g.ram_blocks.len() || gg.ports.len() != g.ports.len() {
            out.push(Finding {
                sig: format!("C21:{tag}{stage}-structure"),
                what: format!(
                    "ports/ffs/rams/sinks before = {}/{}/{}/{}, after = {}/{}/{}/{}",
                    g.ports.len(), g.ffs.len(), g.ram_blocks.len(), sinks.len(),
                    gg.ports.len(), gg.ffs.len(), gg.ram_blocks.len(), after.len()
                ),
                expected: json!("unchanged"),
                observed: json!("changed"),
            });
            continue;
        }
        let pairs: Vec<(String, NetId, NetId)> = sinks.iter().zip(after.iter()).map(|((l, a), (_, b))| (l.clone(), *a, *b)).collect();
        compare_gate_gate(&format!("{tag}{stage}"), g, gg, &pairs, st, out);
        let side: Vec<(String, NetId, NetId)> = ff_side_nets(g).into_iter().zip(ff_side_nets(gg)).map(|((l, a), (_, b))| (l, a, b)).collect();
        compare_gate_gate(&format!("{tag}{stage}"), g, gg, &side, st, out);
        // RAM read data nets must stay RAM outputs
        for (ri, ram) in gg.ram_blocks.iter().enumerate() {
            for (pi, rp) in ram.read_ports.iter().enumerate() {
                for (bi, &n) in rp.data.iter().enumerate() {
                    if !matches!(gg.nets[n as usize].driver, NetDriver::RamRead(a, b, c) if a == ri && b == pi && c == bi) {
                        out.push(Finding {
                            sig: format!("C21:{tag}{stage}-ram-read-net-driver-lost"),
                            what: format!("ram #{ri} read port {pi} bit {bi}: net {n} is driven by {:?}", gg.nets[n as usize].driver),
                            expected: json!("RamRead"),
                            observed: json!(format!("{:?}", gg.nets[n as usize].driver)),
                        });
                    }
                }
            }
        }
    }
    for c in &g.cells {
        st.kinds.insert(c.kind.symbol().to_string());
    }
    g2
}

/// Parses, analyses and synthesizes the design on a fresh big-stack thread (analyzer and string
/// tables are thread-local) and runs `then` on the netlist **in the same thread**.
fn synthesize_then<R: Send + 'static>(
    d: &Design,
    then: impl FnOnce(GateModule) -> R + Send + 'static,
) -> Result<R, String> {
    let d = d.clone();
    let h = std::thread::Builder::new()
        .stack_size(512 << 20)
        .spawn(move || -> Result<R, String> {
            let gate = std::panic::catch_unwind(std::panic::AssertUnwindSafe(|| -> Result<GateModule, String> {
                use veryl_analyzer::ir as air;
                use veryl_analyzer::{Analyzer, Context};
                use veryl_metadata::Metadata;
                use veryl_parser::Parser;
                use veryl_parser::resource_table;
                let metadata = Metadata::create_default("prj").map_err(|e| format!("{e}"))?;
                let parser = Parser::parse(&d.code, &"design.veryl").map_err(|e| format!("parse: {e}"))?;
                let analyzer = Analyzer::new(&metadata);
                let mut context = Context::default();
                let is_err = |e: &veryl_analyzer::AnalyzerError| -> bool {
                    use miette::Diagnostic;
                    !matches!(e.severity(), Some(miette::Severity::Warning) | Some(miette::Severity::Advice))
                };
                let mut errs: Vec<String> = vec![];
                errs.extend(analyzer.analyze_pass1("prj", &parser.veryl).iter().filter(|e| is_err(e)).map(|e| e.to_string()));
                errs.extend(Analyzer::analyze_post_pass1().iter().filter(|e| is_err(e)).map(|e| e.to_string()));
                let mut ir = air::Ir::default();
                errs.extend(
                    analyzer
                        .analyze_pass2(&parser.veryl, &mut context, Some(&mut ir))
                        .iter()
                        .filter(|e| is_err(e))
                        .map(|e| e.to_string()),
                );
                if !errs.is_empty() {
                    return Err(format!("analyzer: {}", errs.join(" | ")));
                }
                let top = resource_table::insert_str(&d.top);
                let mut ram = RamConfig::default();
                if let Some(b) = d.ram_min_bits {
                    ram.min_bits = b;
                }
                let gate = build_gate_ir_with(&ir, top, ram).map_err(|e| format!("synthesizer: {e}"))?;
                Ok(gate.module)
            }));
            let gate = match gate {
                Ok(g) => g?,
                Err(p) => return Err(format!("PANIC in parser/analyzer/synthesizer: {}", panic_text(p))),
            };
            match std::panic::catch_unwind(std::panic::AssertUnwindSafe(move || then(gate))) {
                Ok(r) => Ok(r),
                Err(p) => Err(format!("PANIC in aig flow: {}", panic_text(p))),
            }
        })
        .map_err(|e| format!("spawn: {e}"))?;
    match h.join() {
        Ok(r) => r,
        Err(_) => Err("PANIC (thread died)".into()),
    }
}

fn panic_text(p: Box<dyn std::any::Any + Send>) -> String {
    if let Some(s) = p.downcast_ref::<&str>() {
        s.to_string()
    } else if let Some(s) = p.downcast_ref::<String>() {
        s.clone()
    } else {
        "non-string payload".into()
    }
}

pub fn run(out: &mut Out, thorough: bool, deadline: std::time::Instant) {
    let fam = match &out.only_design {
        Some(d) => vec![d.clone()],
        None => family(thorough),
    };
    struct Res {
        name: String,
        code: String,
        result: Result<(DStats, Vec<Finding>), String>,
    }
    // Two synthesis modes. With the feature on, `build_gate_ir` already runs aigify -> rewrite ->
    // techmap internally, so its final netlist has little left to rewrite. With
    // VERYL_AIG_ROUNDTRIP set (documented in conv.rs) the internal pass only round-trips through the
    // AIG, so the netlist we push through rewrite + techmap here has never been rewritten.
    // The variable is process-global: the two phases run one after the other.
    let mut results: Vec<Res> = vec![];
    for roundtrip in [false, true] {
        // SAFETY: no synthesis thread is running between the phases
        unsafe {
            if roundtrip {
                std::env::set_var("VERYL_AIG_ROUNDTRIP", "1");
            } else {
                std::env::remove_var("VERYL_AIG_ROUNDTRIP");
            }
        }
        let part: Vec<Res> = fam
            .par_iter()
            .map(|d| {
                if std::time::Instant::now() > deadline {
                    return Res {
                        name: d.name.clone(),
                        code: String::new(),
                        result: Err("SKIPPED: budget".into()),
                    };
                }
                let r = synthesize_then(d, |g2| {
                    let mut st = DStats::default();
                    let mut f = vec![];
                    st.cells_before = g2.cells.len() as u64;
                    st.rams = g2.ram_blocks.len() as u64;
                    st.ffs = g2.ffs.len() as u64;
                    let mapped = check_flow("", &g2, &mut st, &mut f);
                    // second generation: the tech-mapped netlist is itself a netlist of the flow
                    let _ = check_flow("2nd-", &mapped, &mut st, &mut f);
                    (st, f)
                });
                Res {
                    name: format!("{}{}", d.name, if roundtrip { " [VERYL_AIG_ROUNDTRIP=1]" } else { "" }),
                    code: d.code.clone(),
                    result: r,
                }
            })
            .collect();
        results.extend(part);
    }
    unsafe {
        std::env::remove_var("VERYL_AIG_ROUNDTRIP");
    }
    let family_runs = results.len();

    let mut built = 0u64;
    let mut skipped_budget = 0u64;
    let mut rejected: Vec<(String, String)> = vec![];
    let mut tot = DStats::default();
    let mut designs_with_ram = 0u64;
    let mut designs_with_ff = 0u64;
    let mut designs_rewritten = 0u64;
    let mut nontrivial_designs = 0u64;
    let mut outcome: BTreeMap<String, u64> = BTreeMap::new();
    for r in results {
        match r.result {
            Err(e) => {
                if e.starts_with("SKIPPED") {
                    skipped_budget += 1;
                } else if e.starts_with("PANIC in aig flow") {
                    out.violation(
                        "C21:aig-flow-panics",
                        format!("aigify/rewrite/techmap panicked on the netlist of {}", r.name),
                        json!({"design": r.name, "code": r.code}),
                        json!("no panic"),
                        json!(e),
                    );
                } else {
                    rejected.push((r.name, e.chars().take(300).collect()));
                }
            }
            Ok((st, f)) => {
                built += 1;
                tot.sinks_compared += st.sinks_compared;
                tot.sinks_skipped_wide += st.sinks_skipped_wide;
                tot.nontrivial_sinks += st.nontrivial_sinks;
                tot.cells_before += st.cells_before;
                tot.ands_before += st.ands_before;
                tot.ands_after += st.ands_after;
                tot.kinds.extend(st.kinds);
                if st.rams > 0 {
                    designs_with_ram += 1;
                }
                if st.ffs > 0 {
                    designs_with_ff += 1;
                }
                if st.rewrite_changed {
                    designs_rewritten += 1;
                }
                if st.nontrivial_sinks > 0 {
                    nontrivial_designs += 1;
                }
                *outcome.entry(format!("{}cells/{}ffs/{}rams", st.cells_before, st.ffs, st.rams)).or_default() += 1;
                for x in f {
                    out.violation(&x.sig, format!("{}: {}", r.name, x.what), json!({"design": r.name, "code": r.code}), x.expected, x.observed);
                }
            }
        }
    }
    for d in fam.iter().filter(|d| d.name == "regfile_ram_8x2" || d.name == "fsm_seq101" || d.name == "bit_deep_2") {
        out.samples.push(json!({"kind": "design", "name": d.name, "code": d.code}));
    }
    out.set("netlist_designs_in_family", fam.len() as u64);
    out.set("netlist_synthesis_runs", family_runs as u64);
    out.set("netlist_designs_synthesized", built);
    out.set("netlist_designs_rejected", rejected.len() as u64);
    out.set("netlist_synthesis_runs_skipped_by_budget", skipped_budget);
    out.set("netlist_exhaustive", skipped_budget == 0);
    out.set("netlist_rejected", json!(rejected.iter().take(10).map(|(a, b)| json!([a, b])).collect::<Vec<_>>()));
    out.set("netlist_sink_functions_compared", tot.sinks_compared);
    out.set("netlist_sinks_skipped_more_than_16_inputs", tot.sinks_skipped_wide);
    out.set("netlist_nontrivial_sinks", tot.nontrivial_sinks);
    out.set("netlist_cells_total", tot.cells_before);
    out.set("netlist_aig_ands_before_rewrite", tot.ands_before);
    out.set("netlist_aig_ands_after_rewrite", tot.ands_after);
    out.set("netlist_designs_where_rewrite_changed_and_count", designs_rewritten);
    out.set("netlist_designs_with_ram_block", designs_with_ram);
    out.set("netlist_designs_with_ffs", designs_with_ff);
    out.set("netlist_designs_nontrivial", nontrivial_designs);
    out.set("netlist_distinct_shapes", outcome.len() as u64);
    out.set("netlist_cell_kinds_seen", json!(tot.kinds.iter().collect::<Vec<_>>()));
    if built == 0 || tot.sinks_compared == 0 || nontrivial_designs < 2 {
        out.machinery.push("vacuity guard: no netlist sink was compared".into());
    }
    if designs_with_ram == 0 {
        out.machinery.push("vacuity guard: no design inferred a RAM block".into());
    }
    if designs_rewritten == 0 {
        out.machinery.push("vacuity guard: rewrite never changed an AIG".into());
    }
    if rejected.len() * 10 > family_runs {
        out.machinery.push(format!("generator bug: {} of {} designs rejected", rejected.len(), fam.len()));
    }
    out.assumptions.push("sink functions are compared over the free variables of their cones (port inputs, FF outputs, RAM read data, undriven nets), exhaustively up to 16 variables".into());
    out.assumptions.push("netlists under test are the final netlists of build_gate_ir (the feature-enabled flow has already run once inside it) and their tech-mapped successors".into());
}


// ------------------------------------------------------------------------------------------
// exhaustive family of hand-built netlists: every library cell kind alone and every ordered pair
// (cell A feeding each input position of cell B), so that the lowering of *every* CellKind in
// `aigify` and every techmap template over two cells is exercised, whatever the synthesizer emits

const ALL_KINDS: [CellKind; 22] = [
    CellKind::Buf,
    CellKind::Not,
    CellKind::And2,
    CellKind::Or2,
    CellKind::Nand2,
    CellKind::Nor2,
    CellKind::Xor2,
    CellKind::Xnor2,
    CellKind::And3,
    CellKind::Or3,
    CellKind::Nand3,
    CellKind::Nor3,
    CellKind::Ao21,
    CellKind::Aoi21,
    CellKind::Oa21,
    CellKind::Oai21,
    CellKind::Ao31,
    CellKind::Aoi31,
    CellKind::Ao22,
    CellKind::Aoi22,
    CellKind::Oai22,
    CellKind::Mux2,
];

/// `b = None`: single cell. Otherwise A feeds input `pos` of B; `share`: B's other inputs reuse A's
/// inputs (reconvergence) instead of fresh primary inputs; `both`: A's output is a module output too.
fn cell_netlist(a: CellKind, b: Option<(CellKind, usize)>, share: bool, both: bool) -> GateModule {
    use veryl_parser::resource_table::insert_str;
    let mut nets = vec![
        NetInfo {
            driver: NetDriver::Const(false),
            origin: None,
        },
        NetInfo {
            driver: NetDriver::Const(true),
            origin: None,
        },
    ];
    let mut pis: Vec<NetId> = vec![];
    let mut new_pi = |nets: &mut Vec<NetInfo>| -> NetId {
        let id = nets.len() as NetId;
        nets.push(NetInfo {
            driver: NetDriver::PortInput,
            origin: None,
        });
        pis.push(id);
        id
    };
    let a_in: Vec<NetId> = (0..a.arity()).map(|_| new_pi(&mut nets)).collect();
    let mut b_in: Vec<NetId> = vec![];
    if let Some((bk, pos)) = b {
        let mut k = 0;
        for j in 0..bk.arity() {
            if j == pos {
                b_in.push(0); // patched below
            } else if share {
                b_in.push(a_in[k % a_in.len()]);
                k += 1;
            } else {
                b_in.push(new_pi(&mut nets));
            }
        }
    }
    let a_out = nets.len() as NetId;
    nets.push(NetInfo {
        driver: NetDriver::Cell(0),
        origin: None,
    });
    let mut cells = vec![Cell {
        kind: a,
        inputs: a_in,
        output: a_out,
    }];
    let mut outs = vec![];
    if let Some((bk, pos)) = b {
        b_in[pos] = a_out;
        let b_out = nets.len() as NetId;
        nets.push(NetInfo {
            driver: NetDriver::Cell(1),
            origin: None,
        });
        cells.push(Cell {
            kind: bk,
            inputs: b_in,
            output: b_out,
        });
        if both {
            outs.push(a_out);
        }
        outs.push(b_out);
    } else {
        outs.push(a_out);
    }
    let i = insert_str("i");
    let o = insert_str("o");
    GateModule {
        name: None,
        ports: vec![
            GatePort {
                name: i,
                path: vec![i],
                dir: PortDir::Input,
                nets: pis,
            },
            GatePort {
                name: o,
                path: vec![o],
                dir: PortDir::Output,
                nets: outs,
            },
        ],
        nets,
        cells,
        ffs: vec![],
        ram_blocks: vec![],
    }
}

pub fn run_cells(out: &mut Out) {
    let mut specs: Vec<(CellKind, Option<(CellKind, usize)>, bool, bool)> = vec![];
    for a in ALL_KINDS {
        specs.push((a, None, false, false));
        for b in ALL_KINDS {
            for pos in 0..b.arity() {
                for share in [false, true] {
                    if share && b.arity() == 1 {
                        continue;
                    }
                    for both in [false, true] {
                        specs.push((a, Some((b, pos)), share, both));
                    }
                }
            }
        }
    }
    let results: Vec<(String, Result<(DStats, Vec<Finding>), String>)> = specs
        .par_iter()
        .map(|(a, b, share, both)| {
            let name = match b {
                None => format!("cell {}", a.symbol()),
                Some((bk, pos)) => format!(
                    "cells {} -> {}.in{}{}{}",
                    a.symbol(),
                    bk.symbol(),
                    pos,
                    if *share { " (other inputs shared)" } else { "" },
                    if *both { " (both outputs observed)" } else { "" }
                ),
            };
            let r = std::panic::catch_unwind(std::panic::AssertUnwindSafe(|| {
                let g = cell_netlist(*a, *b, *share, *both);
                let mut st = DStats::default();
                let mut f = vec![];
                let mapped = check_flow("", &g, &mut st, &mut f);
                let _ = check_flow("2nd-", &mapped, &mut st, &mut f);
                (st, f)
            }))
            .map_err(panic_text);
            (name, r)
        })
        .collect();
    let mut compared = 0u64;
    let mut kinds: BTreeSet<String> = BTreeSet::new();
    let mut n = 0u64;
    for (name, r) in results {
        n += 1;
        match r {
            Err(e) => out.violation(
                "C21:cellfam:aig-flow-panics",
                format!("aigify/rewrite/techmap panicked on the netlist [{name}]: {e}"),
                json!({"netlist": name}),
                json!("no panic"),
                json!(e),
            ),
            Ok((st, f)) => {
                compared += st.sinks_compared;
                kinds.extend(st.kinds);
                for x in f {
                    out.violation(
                        &x.sig.replacen("C21:", "C21:cellfam:", 1),
                        format!("netlist [{name}]: {}", x.what),
                        json!({"netlist": name}),
                        x.expected,
                        x.observed,
                    );
                }
            }
        }
    }
    out.set("cellfam_netlists", n);
    out.set("cellfam_sink_functions_compared", compared);
    out.set("cellfam_cell_kinds", json!(kinds.iter().collect::<Vec<_>>()));
    if kinds.len() != ALL_KINDS.len() {
        out.machinery.push(format!("vacuity guard: cell family covers {} of {} cell kinds", kinds.len(), ALL_KINDS.len()));
    }
    out.samples.push(json!({"kind": "cell_netlist", "netlist": "cells oai21 -> mux2.in0 (other inputs shared)"}));
    out.assumptions.push("cell family: every CellKind alone and every ordered pair (A feeding each input position of B; B's other inputs fresh or shared with A; A observed or not), semantics of the cells taken from the doc comments of ir.rs".into());
}

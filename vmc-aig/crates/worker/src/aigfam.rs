//! Exhaustive AIG family for C21: **every** AIG "program" with at most K two-input ANDs over n
//! primary inputs (each AND picks two distinct earlier slots, each with either polarity), built
//! through the real hash-consing `AigModule::mk_and`, pushed through the real `rewrite`,
//! `aig_to_cells_techmap` and `aig_to_cells`. Every sink's Boolean function is compared by full
//! truth table (n <= 5, 32 minterms) with evaluators of our own.

use crate::Out;
use rayon::prelude::*;
use serde_json::json;
use std::collections::BTreeSet;
use veryl_synthesizer::aig::convert::aig_to_cells;
use veryl_synthesizer::aig::graph::{AigEdge, AigModule, AigNode};
use veryl_synthesizer::aig::rewrite::rewrite;
use veryl_synthesizer::aig::techmap::aig_to_cells_techmap;
use veryl_synthesizer::ir::{CellKind, GateModule, GatePort, NetDriver, NetId, NetInfo, PortDir};

/// One AND of a program: (slot a, neg a, slot b, neg b) with a < b.
type Step = (u8, bool, u8, bool);

const VAR: [u32; 5] = [0xAAAA_AAAA, 0xCCCC_CCCC, 0xF0F0_F0F0, 0xFF00_FF00, 0xFFFF_0000];

fn mask(n: usize) -> u32 {
    if n >= 5 { !0 } else { (1u32 << (1 << n)) - 1 }
}

fn steps_at(slots: u8) -> Vec<Step> {
    let mut v = vec![];
    for a in 0..slots {
        for an in [false, true] {
            for b in (a + 1)..slots {
                for bn in [false, true] {
                    v.push((a, an, b, bn));
                }
            }
        }
    }
    v
}

/// Truth tables of all nodes of an AIG whose inputs are the nets 2..2+n (input i = net 2+i).
fn aig_tts(a: &AigModule, n: usize) -> Option<Vec<u32>> {
    let mut t = vec![0u32; a.nodes.len()];
    for (i, node) in a.nodes.iter().enumerate() {
        t[i] = match node {
            AigNode::Const => 0,
            AigNode::Input { origin } => {
                let k = (*origin as usize).checked_sub(2)?;
                if k >= n {
                    return None;
                }
                VAR[k]
            }
            AigNode::And { fanin0, fanin1 } => {
                let (x, y) = (fanin0.node() as usize, fanin1.node() as usize);
                if x >= i || y >= i {
                    return None; // not topological: reported by the caller
                }
                let vx = if fanin0.is_negated() { !t[x] } else { t[x] };
                let vy = if fanin1.is_negated() { !t[y] } else { t[y] };
                vx & vy
            }
        };
    }
    Some(t)
}

fn edge_tt(t: &[u32], e: AigEdge) -> u32 {
    let v = t[e.node() as usize];
    if e.is_negated() { !v } else { v }
}

fn cell_tt(kind: CellKind, i: &[u32]) -> u32 {
    use CellKind::*;
    match kind {
        Buf => i[0],
        Not => !i[0],
        And2 => i[0] & i[1],
        Or2 => i[0] | i[1],
        Nand2 => !(i[0] & i[1]),
        Nor2 => !(i[0] | i[1]),
        Xor2 => i[0] ^ i[1],
        Xnor2 => !(i[0] ^ i[1]),
        And3 => i[0] & i[1] & i[2],
        Or3 => i[0] | i[1] | i[2],
        Nand3 => !(i[0] & i[1] & i[2]),
        Nor3 => !(i[0] | i[1] | i[2]),
        Ao21 => (i[0] & i[1]) | i[2],
        Aoi21 => !((i[0] & i[1]) | i[2]),
        Oa21 => (i[0] | i[1]) & i[2],
        Oai21 => !((i[0] | i[1]) & i[2]),
        Ao31 => (i[0] & i[1] & i[2]) | i[3],
        Aoi31 => !((i[0] & i[1] & i[2]) | i[3]),
        Ao22 => (i[0] & i[1]) | (i[2] & i[3]),
        Aoi22 => !((i[0] & i[1]) | (i[2] & i[3])),
        Oai22 => !((i[0] | i[1]) & (i[2] | i[3])),
        // inputs = [sel, d_when_sel_0, d_when_sel_1]
        Mux2 => (i[0] & i[2]) | (!i[0] & i[1]),
    }
}

/// Truth table of a net of a gate module (inputs = nets 2..2+n); None = undriven / cyclic.
fn net_tt(g: &GateModule, net: NetId, n: usize, memo: &mut Vec<Option<u32>>, depth: usize) -> Option<u32> {
    if let Some(v) = memo[net as usize] {
        return Some(v);
    }
    if depth > 64 {
        return None;
    }
    let v = match &g.nets[net as usize].driver {
        NetDriver::Const(b) => {
            if *b {
                !0
            } else {
                0
            }
        }
        NetDriver::PortInput => {
            let k = (net as usize).checked_sub(2)?;
            if k >= n {
                return None;
            }
            VAR[k]
        }
        NetDriver::Cell(c) => {
            let cell = g.cells.get(*c)?;
            if cell.output != net || cell.inputs.len() != cell.kind.arity() {
                return None;
            }
            let mut ins = [0u32; 4];
            for (j, &x) in cell.inputs.iter().enumerate() {
                ins[j] = net_tt(g, x, n, memo, depth + 1)?;
            }
            cell_tt(cell.kind, &ins[..cell.inputs.len()])
        }
        _ => return None,
    };
    memo[net as usize] = Some(v);
    Some(v)
}

fn skeleton(n: usize, sinks: usize) -> GateModule {
    use veryl_parser::resource_table::insert_str;
    let mut nets = vec![
        NetInfo {
            driver: NetDriver::Const(false),
            origin: None,
        },
        NetInfo {
            driver: NetDriver::Const(true),
            origin: None,
        },
    ];
    for _ in 0..n {
        nets.push(NetInfo {
            driver: NetDriver::PortInput,
            origin: None,
        });
    }
    for _ in 0..sinks {
        nets.push(NetInfo {
            driver: NetDriver::Undriven,
            origin: None,
        });
    }
    let i = insert_str("i");
    let o = insert_str("o");
    GateModule {
        name: None,
        ports: vec![
            GatePort {
                name: i,
                path: vec![i],
                dir: PortDir::Input,
                nets: (0..n).map(|k| (2 + k) as NetId).collect(),
            },
            GatePort {
                name: o,
                path: vec![o],
                dir: PortDir::Output,
                nets: (0..sinks).map(|k| (2 + n + k) as NetId).collect(),
            },
        ],
        nets,
        cells: vec![],
        ffs: vec![],
        ram_blocks: vec![],
    }
}

#[derive(Default)]
struct Acc {
    programs: u64,
    cases: u64,
    functions_compared: u64,
    nonconstant_functions: u64,
    rewrites_that_shrank: u64,
    rewrites_that_shrank_all_live: u64,
    ands_before: u64,
    ands_after: u64,
    kinds: BTreeSet<&'static str>,
    distinct_tts: BTreeSet<u32>,
    /// signature -> (count, first case text, expected, observed)
    viol: std::collections::BTreeMap<String, (u64, String, String, String)>,
}

impl Acc {
    fn merge(&mut self, o: Acc) {
        self.programs += o.programs;
        self.cases += o.cases;
        self.functions_compared += o.functions_compared;
        self.nonconstant_functions += o.nonconstant_functions;
        self.rewrites_that_shrank += o.rewrites_that_shrank;
        self.rewrites_that_shrank_all_live += o.rewrites_that_shrank_all_live;
        self.ands_before += o.ands_before;
        self.ands_after += o.ands_after;
        self.kinds.extend(o.kinds);
        if self.distinct_tts.len() < 100_000 {
            self.distinct_tts.extend(o.distinct_tts);
        }
        for (k, v) in o.viol {
            let e = self.viol.entry(k).or_insert((0, v.1.clone(), v.2.clone(), v.3.clone()));
            e.0 += v.0;
            if v.1 < e.1 {
                e.1 = v.1;
                e.2 = v.2;
                e.3 = v.3;
            }
        }
    }
    fn violation(&mut self, sig: &str, case: String, expected: String, observed: String) {
        let e = self.viol.entry(sig.to_string()).or_insert((0, case.clone(), expected.clone(), observed.clone()));
        e.0 += 1;
        if case < e.1 {
            e.1 = case;
            e.2 = expected;
            e.3 = observed;
        }
    }
}

fn show(n: usize, prog: &[Step], variant: u8) -> String {
    let s: Vec<String> = prog
        .iter()
        .enumerate()
        .map(|(j, (a, an, b, bn))| format!("s{}=AND({}s{},{}s{})", n + j, if *an { "!" } else { "" }, a, if *bn { "!" } else { "" }, b))
        .collect();
    format!(
        "n={n} ands={:02} [{}] sinks={}",
        prog.len(),
        s.join(" "),
        if variant == 0 { "last" } else { "every AND, odd ones negated" }
    )
}

fn check_program(n: usize, prog: &[Step], acc: &mut Acc) {
    acc.programs += 1;
    for variant in 0..2u8 {
        if variant == 1 && prog.len() == 1 {
            continue; // identical to variant 0
        }
        acc.cases += 1;
        let case = show(n, prog, variant);
        let r = std::panic::catch_unwind(std::panic::AssertUnwindSafe(|| {
            let mut a0 = AigModule::new();
            let mut slot: Vec<AigEdge> = (0..n).map(|k| a0.add_input((2 + k) as NetId)).collect();
            for (a, an, b, bn) in prog {
                let e = a0.mk_and(slot[*a as usize].negate_if(*an), slot[*b as usize].negate_if(*bn));
                slot.push(e);
            }
            let mut sinks: Vec<AigEdge> = vec![];
            if variant == 0 {
                sinks.push(*slot.last().unwrap());
            } else {
                for j in 0..prog.len() {
                    sinks.push(slot[n + j].negate_if(j % 2 == 1));
                }
            }
            for (k, e) in sinks.iter().enumerate() {
                a0.add_sink((2 + n + k) as NetId, *e);
            }
            let skel = skeleton(n, sinks.len());
            let a1 = rewrite(&a0);
            let g_map0 = aig_to_cells_techmap(&a0, &skel);
            let g_map1 = aig_to_cells_techmap(&a1, &skel);
            let g_plain1 = aig_to_cells(&a1, &skel);
            (a0, a1, g_map0, g_map1, g_plain1, sinks.len())
        }));
        let (a0, a1, g_map0, g_map1, g_plain1, ns) = match r {
            Ok(x) => x,
            Err(p) => {
                let msg = p.downcast_ref::<String>().cloned().or_else(|| p.downcast_ref::<&str>().map(|s| s.to_string())).unwrap_or_default();
                acc.violation("C21:aigfam:flow-panics", case, "no panic".into(), msg);
                continue;
            }
        };
        let m = mask(n);
        let Some(t0) = aig_tts(&a0, n) else {
            acc.violation("C21:aigfam:source-aig-malformed", case, "topological AIG".into(), "not".into());
            continue;
        };
        let want: Vec<u32> = a0.sinks.iter().map(|s| edge_tt(&t0, s.edge) & m).collect();
        acc.ands_before += a0.and_count() as u64;
        acc.ands_after += a1.and_count() as u64;
        if a1.and_count() < a0.and_count() {
            acc.rewrites_that_shrank += 1;
            if variant == 1 {
                // every AND is a sink here, so nothing is dead: the gain is a library rewrite
                acc.rewrites_that_shrank_all_live += 1;
            }
        }
        // rewrite
        match aig_tts(&a1, n) {
            None => acc.violation("C21:aigfam:rewrite-output-malformed", case.clone(), "topological AIG over the same inputs".into(), "not".into()),
            Some(t1) => {
                if a1.sinks.len() != ns {
                    acc.violation("C21:aigfam:rewrite-sink-count", case.clone(), ns.to_string(), a1.sinks.len().to_string());
                } else {
                    for (k, s) in a1.sinks.iter().enumerate() {
                        let got = edge_tt(&t1, s.edge) & m;
                        acc.functions_compared += 1;
                        if got != want[k] || s.target != a0.sinks[k].target {
                            acc.violation(
                                "C21:aigfam:rewrite-changes-function",
                                case.clone(),
                                format!("sink {k}: tt {:#010x}", want[k]),
                                format!("sink {k}: tt {got:#010x} target {}", s.target),
                            );
                        }
                    }
                }
            }
        }
        // mapping back to cells
        for (stage, g) in [("techmap-of-unrewritten-aig", &g_map0), ("rewrite+techmap", &g_map1), ("rewrite+aig_to_cells", &g_plain1)] {
            let mut memo = vec![None; g.nets.len()];
            for c in &g.cells {
                acc.kinds.insert(c.kind.symbol());
            }
            for k in 0..ns {
                let net = (2 + n + k) as NetId;
                let got = net_tt(g, net, n, &mut memo, 0).map(|x| x & m);
                acc.functions_compared += 1;
                if got != Some(want[k]) {
                    acc.violation(
                        &format!("C21:aigfam:{stage}-changes-function{}", if got.is_none() { ":output-undriven-or-malformed" } else { "" }),
                        case.clone(),
                        format!("output {k}: tt {:#010x}", want[k]),
                        format!("output {k}: {got:x?}; netlist: {g}"),
                    );
                }
            }
        }
        for w in &want {
            if *w != 0 && *w != m {
                acc.nonconstant_functions += 1;
            }
            if acc.distinct_tts.len() < 70_000 {
                acc.distinct_tts.insert(*w);
            }
        }
    }
}

fn extend(n: usize, prog: &mut Vec<Step>, k: usize, acc: &mut Acc) {
    if prog.len() == k {
        check_program(n, prog, acc);
        return;
    }
    for s in steps_at((n + prog.len()) as u8) {
        prog.push(s);
        extend(n, prog, k, acc);
        prog.pop();
    }
}

fn count(n: usize, k: usize) -> u64 {
    (0..k).map(|j| steps_at((n + j) as u8).len() as u64).product()
}

pub fn run(out: &mut Out, thorough: bool, deadline: std::time::Instant) {
    // (inputs, max ANDs)
    let plan: Vec<(usize, usize)> = if thorough { vec![(3, 4), (5, 3), (4, 4)] } else { vec![(3, 3), (4, 3), (5, 2)] };
    let mut tot = Acc::default();
    let mut bounds = vec![];
    let mut all_complete = true;
    for (n, kmax) in &plan {
        let mut completed = 0usize;
        for k in 1..=*kmax {
            // parallel over the first min(k,2) steps
            let pre = k.min(2);
            let mut prefixes: Vec<Vec<Step>> = vec![vec![]];
            for j in 0..pre {
                let mut next = vec![];
                for p in &prefixes {
                    for s in steps_at((*n + j) as u8) {
                        let mut q = p.clone();
                        q.push(s);
                        next.push(q);
                    }
                }
                prefixes = next;
            }
            let capped = std::sync::atomic::AtomicBool::new(false);
            let acc = prefixes
                .par_iter()
                .fold(Acc::default, |mut acc, p| {
                    if std::time::Instant::now() > deadline {
                        capped.store(true, std::sync::atomic::Ordering::Relaxed);
                        return acc;
                    }
                    let mut prog = p.clone();
                    extend(*n, &mut prog, k, &mut acc);
                    acc
                })
                .reduce(Acc::default, |mut a, b| {
                    a.merge(b);
                    a
                });
            let done = acc.programs;
            tot.merge(acc);
            let expected = count(*n, k);
            if capped.load(std::sync::atomic::Ordering::Relaxed) || done != expected {
                all_complete = false;
                bounds.push(json!({"inputs": n, "ands": k, "programs": expected, "checked": done, "complete": false}));
                break;
            }
            completed = k;
            bounds.push(json!({"inputs": n, "ands": k, "programs": expected, "checked": done, "complete": true}));
        }
        if completed < *kmax {
            all_complete = false;
        }
    }
    for (sig, (n, case, exp, obs)) in &tot.viol {
        for _ in 0..(*n).min(1) {
            out.violation(sig, format!("AIG program {case}"), json!({"aig_program": case, "cases_with_this_signature": n}), json!(exp), json!(obs));
        }
    }
    out.samples.push(json!({"kind": "aig_program", "program": show(4, &[(0, false, 1, true), (0, true, 1, false), (4, true, 5, true), (2, false, 6, true)], 1)}));
    out.set("aigfam_bounds", json!(bounds));
    out.set("aigfam_exhaustive", all_complete);
    out.set("aigfam_programs", tot.programs);
    out.set("aigfam_cases", tot.cases);
    out.set("aigfam_functions_compared", tot.functions_compared);
    out.set("aigfam_nonconstant_sink_functions", tot.nonconstant_functions);
    out.set("aigfam_cases_where_rewrite_removed_ands", tot.rewrites_that_shrank);
    out.set("aigfam_cases_where_rewrite_removed_ands_with_every_and_observed", tot.rewrites_that_shrank_all_live);
    out.set("aigfam_ands_before_rewrite", tot.ands_before);
    out.set("aigfam_ands_after_rewrite", tot.ands_after);
    out.set("aigfam_distinct_sink_functions_sampled", tot.distinct_tts.len() as u64);
    out.set("aigfam_cell_kinds_emitted", json!(tot.kinds.iter().collect::<Vec<_>>()));
    if tot.programs == 0 || tot.rewrites_that_shrank == 0 || tot.kinds.len() < 4 {
        out.machinery.push("vacuity guard: AIG family did not exercise rewrite / techmap".into());
    }
    out.assumptions.push(
        "AIG family: every program of <= K ANDs over n inputs (two distinct earlier slots, any polarity), sinks = last AND, and = every AND with alternating polarity; functions compared on all 2^n minterms".into(),
    );
}

#![allow(dead_code)]
//! vmc-aig — driver of the C21 check ("AIG rewriting preserves every output function").
//!
//! Usage: vmc-aig check C21 [quick|thorough]
//!
//! The driver itself never links `veryl-synthesizer`: it first builds the worker crate
//! (`vmc-aig-worker`, which depends on `veryl-synthesizer` with feature `aig`) with cargo. If that
//! build fails because the feature does not compile, exactly that is reported as a violation with
//! signature `C21:aig-feature-does-not-compile` (exit 0 only when /verif/known_findings.jsonl lists
//! it). Otherwise the worker runs the exhaustive checks and the driver writes the evidence in the
//! format of /verif/vmc (core.rs).

mod core;

use crate::core::*;
use serde_json::{Value, json};
use std::path::PathBuf;
use std::process::Command;

fn workspace_dir() -> PathBuf {
    if let Ok(x) = std::env::var("VMC_AIG_WS") {
        return PathBuf::from(x);
    }
    PathBuf::from(env!("CARGO_MANIFEST_DIR")).join("../..").canonicalize().unwrap_or_else(|_| PathBuf::from("."))
}

fn run(ctx: &Ctx) -> Report {
    let mut rep = Report::new(Level::Exploration);
    let ws = workspace_dir();
    let home = ctx.dir("home");

    // ---- step 1: does the feature compile?
    let t0 = std::time::Instant::now();
    let build = Command::new("cargo")
        .args(["build", "--offline", "--package", "vmc-aig-worker", "--message-format", "short"])
        .current_dir(&ws)
        .env("XDG_CACHE_HOME", &home)
        .output();
    let build = match build {
        Ok(b) => b,
        Err(e) => {
            rep.machinery(format!("cannot run cargo in {}: {e}", ws.display()));
            return rep;
        }
    };
    rep.set("worker_build_s", (t0.elapsed().as_secs_f64() * 10.0).round() / 10.0);
    let stderr = String::from_utf8_lossy(&build.stderr).to_string();
    if !build.status.success() {
        let errors: Vec<String> = stderr.lines().filter(|l| l.contains("error")).map(|l| l.trim().to_string()).take(20).collect();
        let in_aig: Vec<&String> = errors.iter().filter(|l| l.contains("synthesizer/src/aig/") || l.contains("synthesizer/src/conv")).collect();
        let foreign: Vec<&String> = errors
            .iter()
            .filter(|l| !(l.contains("synthesizer/src/") || l.contains("could not compile `veryl-synthesizer`")) && l.starts_with("error"))
            .collect();
        rep.set("feature_compiles", false);
        rep.set("evaluations", 0u64);
        rep.set("distinct_nontrivial", 0u64);
        rep.set("rule", "the exhaustive checks need veryl-synthesizer built with feature `aig`");
        rep.set("compiler_errors", json!(errors));
        rep.sample(json!({"kind": "build", "command": "cargo build --offline --package vmc-aig-worker", "first_error": errors.first()}));
        if !in_aig.is_empty() && foreign.is_empty() {
            rep.violation(Violation {
                signature: "C21:aig-feature-does-not-compile".into(),
                what: "veryl-synthesizer does not compile with feature `aig`, so none of the statement can hold for any input".into(),
                case: json!({"command": "cargo build --offline -p vmc-aig-worker (depends on veryl-synthesizer with features = [\"aig\"])", "workspace": ws}),
                expected: json!("the feature builds"),
                observed: json!(errors),
            });
        } else {
            rep.machinery(format!("worker build failed outside crates/synthesizer: {}", errors.join(" ; ")));
        }
        return rep;
    }
    rep.set("feature_compiles", true);

    // ---- step 2: run the worker
    let out_json = ctx.dir("out").join("result.json");
    let worker = bin_dir().join("vmc-aig-worker");
    let run = Command::new(&worker)
        .arg(ctx.tier.as_str())
        .arg(&out_json)
        .env("HOME", &home)
        .env("XDG_CACHE_HOME", &home)
        .current_dir(&home)
        .output();
    match run {
        Ok(o) if o.status.success() => {}
        Ok(o) => {
            rep.machinery(format!(
                "worker exited with {:?}: {}",
                o.status.code(),
                String::from_utf8_lossy(&o.stderr).chars().take(500).collect::<String>()
            ));
            return rep;
        }
        Err(e) => {
            rep.machinery(format!("cannot run {}: {e}", worker.display()));
            return rep;
        }
    }
    let doc: Value = match std::fs::read_to_string(&out_json).ok().and_then(|t| serde_json::from_str(&t).ok()) {
        Some(d) => d,
        None => {
            rep.machinery("worker result unreadable");
            return rep;
        }
    };
    if let Some(c) = doc["coverage"].as_object() {
        for (k, v) in c {
            rep.coverage.insert(k.clone(), v.clone());
        }
    }
    for a in doc["assumptions"].as_array().cloned().unwrap_or_default() {
        rep.assume(a.as_str().unwrap_or(""));
    }
    for m in doc["machinery"].as_array().cloned().unwrap_or_default() {
        rep.machinery(m.as_str().unwrap_or("").to_string());
    }
    let mut by_sig = serde_json::Map::new();
    for v in doc["violations"].as_array().cloned().unwrap_or_default() {
        by_sig.insert(v["signature"].as_str().unwrap_or("").to_string(), v["cases"].clone());
        rep.violation(Violation {
            signature: v["signature"].as_str().unwrap_or("C21:unknown").to_string(),
            what: v["what"].as_str().unwrap_or("").to_string(),
            case: v["case"].clone(),
            expected: v["expected"].clone(),
            observed: v["observed"].clone(),
        });
    }
    rep.set("violation_cases_by_signature", Value::Object(by_sig));
    let g = |k: &str| rep.get_u64(k);
    let evaluations = g("npn_truth_tables") + g("transform_pattern_contract_checks") + g("netlist_sink_functions_compared") + g("cellfam_sink_functions_compared") + g("aigfam_functions_compared");
    let nontrivial = g("npn_non_identity_transforms") + g("netlist_nontrivial_sinks") + g("aigfam_nonconstant_sink_functions");
    rep.set("evaluations", evaluations);
    rep.set("distinct_nontrivial", nontrivial);
    let flag = |k: &str| rep.coverage.get(k).and_then(|v| v.as_bool()).unwrap_or(false);
    let all_done = flag("aigfam_exhaustive") && flag("netlist_exhaustive");
    rep.set("exhaustive", all_done);
    rep.set(
        "rule",
        "non-trivial = truth tables whose canonising transform is not the identity + netlist sinks whose cone has at least two free variables + non-constant sink functions of the AIG program family; all 65536 truth tables, all library entries x all 768 transforms, every sink of every netlist of the design family and every sink of every AIG program (aigfam_bounds) are evaluated",
    );
    rep
}

/// `vmc-aig replay <replay.json>`: a recorded design case is re-synthesized and pushed through the
/// netlist checks alone; any other case (truth table, AIG program, cell netlist, build failure) is
/// re-checked by running the quick tier and looking for the recorded signature.
fn replay(path: &str) -> i32 {
    let Some(doc) = std::fs::read_to_string(path).ok().and_then(|t| serde_json::from_str::<Value>(&t).ok()) else {
        eprintln!("cannot read {path}");
        return 2;
    };
    let sig = doc["signature"].as_str().unwrap_or("").to_string();
    let ctx = Ctx::new("C21replay", Tier::Quick);
    let ws = workspace_dir();
    let home = ctx.dir("home");
    let built = Command::new("cargo")
        .args(["build", "--offline", "--package", "vmc-aig-worker", "--message-format", "short"])
        .current_dir(&ws)
        .env("XDG_CACHE_HOME", &home)
        .output();
    let built_ok = matches!(&built, Ok(b) if b.status.success());
    if sig == "C21:aig-feature-does-not-compile" {
        println!("{}", if built_ok { "case passes: the feature builds" } else { "still failing: C21:aig-feature-does-not-compile" });
        return if built_ok { 0 } else { 1 };
    }
    if !built_ok {
        eprintln!("worker does not build (C21:aig-feature-does-not-compile); nothing else can be replayed");
        return 2;
    }
    let out_json = ctx.dir("out").join("result.json");
    let worker = bin_dir().join("vmc-aig-worker");
    let mut cmd = Command::new(&worker);
    if let Some(code) = doc["case"]["code"].as_str() {
        let f = ctx.dir("in").join("design.veryl");
        let _ = std::fs::write(&f, code);
        cmd.arg("design").arg(&f).arg(&out_json);
        if doc["case"]["design"].as_str().unwrap_or("").contains("regfile_ram") {
            cmd.arg("8");
        }
        if doc["case"]["design"].as_str().unwrap_or("").contains("VERYL_AIG_ROUNDTRIP") {
            // the single-design mode runs both synthesis modes anyway
        }
    } else {
        cmd.arg("quick").arg(&out_json);
    }
    let ok = cmd.env("HOME", &home).env("XDG_CACHE_HOME", &home).current_dir(&home).status().map(|s| s.success()).unwrap_or(false);
    let res: Option<Value> = std::fs::read_to_string(&out_json).ok().and_then(|t| serde_json::from_str(&t).ok());
    let (true, Some(res)) = (ok, res) else {
        eprintln!("worker failed");
        return 2;
    };
    let mut hit = false;
    for v in res["violations"].as_array().cloned().unwrap_or_default() {
        let s = v["signature"].as_str().unwrap_or("");
        println!("still failing: {s} — {}", v["what"].as_str().unwrap_or(""));
        if s == sig || doc["case"]["code"].is_string() {
            hit = true;
        }
    }
    if hit {
        1
    } else {
        println!("case passes");
        0
    }
}

fn main() {
    let args: Vec<String> = std::env::args().collect();
    if args.len() >= 3 && args[1] == "replay" {
        let code = replay(&args[2]);
        std::process::exit(code);
    }
    if args.len() < 3 || args[1] != "check" || args[2] != "C21" {
        eprintln!("usage: vmc-aig check C21 [quick|thorough] | vmc-aig replay <path>");
        std::process::exit(2);
    }
    let tier = match args.get(3).cloned().or_else(|| std::env::var("VERIF_TIER").ok()).as_deref() {
        Some("thorough") => Tier::Thorough,
        _ => Tier::Quick,
    };
    let ctx = Ctx::new("C21", tier);
    let rep = match std::panic::catch_unwind(std::panic::AssertUnwindSafe(|| run(&ctx))) {
        Ok(r) => r,
        Err(p) => {
            let mut r = Report::new(Level::Exploration);
            r.machinery(format!("check engine panicked: {}", panic_message(p)));
            r
        }
    };
    let code = finish(&ctx, rep);
    drop(ctx);
    std::process::exit(code);
}

//! Shared plumbing copied from /verif/vmc/crates/vmc/src/core.rs (context, evidence, replay
//! artefacts, known findings, exit codes) — same evidence format, no rayon/blake3/walkdir helpers.
//!
//! Exit codes of `vmc check`: 0 = property held on everything explored (known findings are
//! printed), 1 = at least one violation that `known_findings.jsonl` does not list, 2 = machinery
//! failure (never a verdict).

use serde_json::{Map, Value, json};
use std::collections::BTreeMap;
use std::path::{Path, PathBuf};
use std::time::Instant;

/// Root of the verification tree (evidence, replays, known findings). `VMC_VERIF_ROOT` overrides
/// it for development workspaces; registered checks run without the override.
pub fn verif_root() -> PathBuf {
    PathBuf::from(std::env::var("VMC_VERIF_ROOT").unwrap_or_else(|_| "/verif".to_string()))
}
/// Root of the repository under test (`VMC_REPO_ROOT` overrides for development workspaces).
pub fn repo_root() -> PathBuf {
    PathBuf::from(std::env::var("VMC_REPO_ROOT").unwrap_or_else(|_| "/repo".to_string()))
}
/// Directory holding the harness-built `veryl`, `veryl-ls` and `vmc` binaries.
pub fn bin_dir() -> PathBuf {
    std::env::current_exe()
        .ok()
        .and_then(|p| p.parent().map(|x| x.to_path_buf()))
        .unwrap_or_else(|| PathBuf::from("/verif/.target/debug"))
}

#[derive(Clone, Copy, PartialEq, Eq, Debug)]
pub enum Tier {
    Quick,
    Thorough,
}

impl Tier {
    pub fn as_str(&self) -> &'static str {
        match self {
            Tier::Quick => "quick",
            Tier::Thorough => "thorough",
        }
    }
    pub fn is_thorough(&self) -> bool {
        matches!(self, Tier::Thorough)
    }
}

pub struct Ctx {
    pub id: String,
    pub tier: Tier,
    pub seed: u64,
    pub start: Instant,
    pub scratch: PathBuf,
}

impl Ctx {
    pub fn new(id: &str, tier: Tier) -> Ctx {
        let seed = std::env::var("VERIF_SEED")
            .ok()
            .and_then(|x| x.parse::<u64>().ok())
            .unwrap_or(0);
        let base = std::env::var("VMC_SCRATCH").ok().map(PathBuf::from).unwrap_or_else(|| {
            if Path::new("/dev/shm").is_dir() {
                PathBuf::from("/dev/shm")
            } else {
                PathBuf::from("/var/tmp")
            }
        });
        let scratch = base.join(format!("vmc.{}.{}", id, std::process::id()));
        let _ = std::fs::remove_dir_all(&scratch);
        std::fs::create_dir_all(&scratch).expect("create scratch dir");
        Ctx {
            id: id.to_string(),
            tier,
            seed,
            start: Instant::now(),
            scratch,
        }
    }
    pub fn thorough(&self) -> bool {
        self.tier.is_thorough()
    }
    /// Fresh sub-directory of the scratch area.
    pub fn dir(&self, name: &str) -> PathBuf {
        let p = self.scratch.join(name);
        let _ = std::fs::remove_dir_all(&p);
        std::fs::create_dir_all(&p).expect("create scratch sub dir");
        p
    }
    pub fn elapsed(&self) -> f64 {
        self.start.elapsed().as_secs_f64()
    }
    /// Wall-clock budget in seconds for this tier, overridable by VMC_BUDGET_S.
    pub fn budget(&self, quick: f64, thorough: f64) -> f64 {
        if let Some(x) = std::env::var("VMC_BUDGET_S").ok().and_then(|x| x.parse::<f64>().ok()) {
            return x;
        }
        if self.thorough() { thorough } else { quick }
    }
}

impl Drop for Ctx {
    fn drop(&mut self) {
        let _ = std::fs::remove_dir_all(&self.scratch);
    }
}

#[derive(Clone, Copy, PartialEq, Eq, Debug)]
pub enum Level {
    Exploration,
    FaultEnumeration,
    ModelChecking,
}

impl Level {
    fn as_str(&self) -> &'static str {
        match self {
            Level::Exploration => "exploration",
            Level::FaultEnumeration => "fault_enumeration",
            Level::ModelChecking => "model_checking",
        }
    }
}

#[derive(Clone, Debug)]
pub struct Violation {
    /// Specific, stable identifier of *what* fails (matched against known_findings.jsonl).
    pub signature: String,
    pub what: String,
    /// The replayable case (input / history / schedule).
    pub case: Value,
    pub expected: Value,
    pub observed: Value,
}

pub struct Report {
    pub level: Level,
    pub coverage: Map<String, Value>,
    pub assumptions: Vec<String>,
    pub violations: Vec<Violation>,
    /// Machinery failures (engine crash, vacuity guard...). Non-empty => exit 2.
    pub machinery_errors: Vec<String>,
    pub notes: Vec<String>,
}

impl Report {
    pub fn new(level: Level) -> Report {
        Report {
            level,
            coverage: Map::new(),
            assumptions: Vec::new(),
            violations: Vec::new(),
            machinery_errors: Vec::new(),
            notes: Vec::new(),
        }
    }
    pub fn set(&mut self, key: &str, v: impl Into<Value>) {
        self.coverage.insert(key.to_string(), v.into());
    }
    pub fn add(&mut self, key: &str, n: u64) {
        let cur = self.coverage.get(key).and_then(|x| x.as_u64()).unwrap_or(0);
        self.coverage.insert(key.to_string(), json!(cur + n));
    }
    pub fn get_u64(&self, key: &str) -> u64 {
        self.coverage.get(key).and_then(|x| x.as_u64()).unwrap_or(0)
    }
    pub fn sample(&mut self, v: Value) {
        let e = self
            .coverage
            .entry("samples".to_string())
            .or_insert_with(|| Value::Array(vec![]));
        if let Value::Array(a) = e {
            if a.len() < 8 {
                a.push(v);
            }
        }
    }
    pub fn assume(&mut self, s: &str) {
        if !self.assumptions.iter().any(|x| x == s) {
            self.assumptions.push(s.to_string());
        }
    }
    pub fn violation(&mut self, v: Violation) {
        self.violations.push(v);
    }
    pub fn machinery(&mut self, s: impl Into<String>) {
        self.machinery_errors.push(s.into());
    }
}

#[derive(serde::Deserialize, Debug, Clone)]
pub struct KnownFinding {
    pub property: String,
    pub signature: String,
    #[serde(default)]
    pub what: String,
    #[serde(default)]
    pub status: String,
    #[serde(default)]
    pub commit: Option<String>,
}

pub fn load_known_findings() -> Vec<KnownFinding> {
    let path = verif_root().join("known_findings.jsonl");
    let Ok(text) = std::fs::read_to_string(&path) else {
        return vec![];
    };
    let mut out = vec![];
    for line in text.lines() {
        let line = line.trim();
        if line.is_empty() || line.starts_with('#') {
            continue;
        }
        match serde_json::from_str::<KnownFinding>(line) {
            Ok(x) => out.push(x),
            Err(e) => eprintln!("warning: unparsable known_findings line: {e}: {line}"),
        }
    }
    out
}

fn repo_head() -> String {
    std::process::Command::new("git")
        .args(["-C", repo_root().to_str().unwrap(), "rev-parse", "HEAD"])
        .output()
        .ok()
        .map(|x| String::from_utf8_lossy(&x.stdout).trim().to_string())
        .unwrap_or_default()
}

fn repo_dirty() -> Vec<String> {
    std::process::Command::new("git")
        .args(["-C", repo_root().to_str().unwrap(), "status", "--porcelain"])
        .output()
        .ok()
        .map(|x| {
            String::from_utf8_lossy(&x.stdout)
                .lines()
                .map(|l| l.trim().to_string())
                .collect()
        })
        .unwrap_or_default()
}

/// Writes evidence, replay artefacts, prints KNOWN-FINDING / VIOLATION lines, returns exit code.
pub fn finish(ctx: &Ctx, mut rep: Report) -> i32 {
    let known: Vec<KnownFinding> = load_known_findings()
        .into_iter()
        .filter(|k| k.property == ctx.id && k.status != "fixed")
        .collect();

    // Group violations by signature.
    let mut by_sig: BTreeMap<String, Vec<Violation>> = BTreeMap::new();
    for v in std::mem::take(&mut rep.violations) {
        by_sig.entry(v.signature.clone()).or_default().push(v);
    }

    let mut new_violations = 0usize;
    let mut known_hits = 0usize;
    let replay_dir = verif_root().join("replays").join(&ctx.id);
    let mut lines = Vec::new();
    let mut n = 0usize;
    for (sig, vs) in &by_sig {
        if let Some(k) = known.iter().find(|k| &k.signature == sig) {
            known_hits += 1;
            lines.push(format!(
                "KNOWN-FINDING: property={} {} [{}] ({} case(s))",
                ctx.id,
                k.what,
                sig,
                vs.len()
            ));
            continue;
        }
        new_violations += 1;
        if n < 20 {
            let _ = std::fs::create_dir_all(&replay_dir);
            let path = replay_dir.join(format!("{n}.json"));
            let v = &vs[0];
            let doc = json!({
                "property": ctx.id,
                "tier": ctx.tier.as_str(),
                "repo_head": repo_head(),
                "dirty": repo_dirty(),
                "signature": sig,
                "what": v.what,
                "case": v.case,
                "expected": v.expected,
                "observed": v.observed,
                "cases_with_this_signature": vs.len(),
            });
            let _ = std::fs::write(&path, serde_json::to_string_pretty(&doc).unwrap());
            lines.push(format!(
                "VIOLATION property={} replay={} signature={} what={}",
                ctx.id,
                path.display(),
                sig,
                v.what.replace('\n', " ")
            ));
            n += 1;
        }
    }

    // Evidence file.
    let wall = ctx.elapsed();
    let total_violation_cases: usize = by_sig.values().map(|x| x.len()).sum();
    if !rep.notes.is_empty() {
        rep.coverage
            .insert("notes".to_string(), json!(rep.notes.clone()));
    }
    rep.coverage
        .insert("known_finding_signatures_hit".to_string(), json!(known_hits));
    if !rep.machinery_errors.is_empty() {
        rep.coverage.insert(
            "machinery_errors".to_string(),
            json!(rep.machinery_errors.clone()),
        );
    }
    let ev = json!({
        "property_id": ctx.id,
        "tier": ctx.tier.as_str(),
        "seed": ctx.seed,
        "level": rep.level.as_str(),
        "coverage": Value::Object(rep.coverage.clone()),
        "assumptions": rep.assumptions,
        "wall_s": (wall * 1000.0).round() / 1000.0,
        "violations": new_violations,
        "violation_cases_total": total_violation_cases,
        "repo_head": repo_head(),
    });
    let ev_dir = verif_root().join("evidence");
    let _ = std::fs::create_dir_all(&ev_dir);
    let ev_path = ev_dir.join(format!("{}.json", ctx.id));
    if let Err(e) = std::fs::write(&ev_path, serde_json::to_string_pretty(&ev).unwrap()) {
        eprintln!("cannot write evidence {}: {e}", ev_path.display());
        return 2;
    }

    for l in &lines {
        println!("{l}");
    }
    for e in &rep.machinery_errors {
        println!("MACHINERY-ERROR property={} {}", ctx.id, e);
    }
    println!(
        "{} {} tier={} wall={:.1}s violations={} known={} coverage={}",
        if new_violations > 0 {
            "FAIL"
        } else if !rep.machinery_errors.is_empty() {
            "ERROR"
        } else {
            "PASS"
        },
        ctx.id,
        ctx.tier.as_str(),
        wall,
        new_violations,
        known_hits,
        summarize(&rep.coverage)
    );
    if new_violations > 0 {
        1
    } else if !rep.machinery_errors.is_empty() {
        2
    } else {
        0
    }
}

fn summarize(c: &Map<String, Value>) -> String {
    let mut parts = vec![];
    for (k, v) in c {
        if v.is_u64() || v.is_boolean() {
            parts.push(format!("{k}={v}"));
        }
    }
    parts.join(" ")
}

pub fn panic_message(p: Box<dyn std::any::Any + Send>) -> String {
    if let Some(s) = p.downcast_ref::<&str>() {
        s.to_string()
    } else if let Some(s) = p.downcast_ref::<String>() {
        s.clone()
    } else {
        "panic (non-string payload)".to_string()
    }
}


#!/bin/bash
# usage: run.sh <diff> <check-id> [tier]
set -u
cd /work/pretty/repo || exit 2
git apply "$1" || { echo "APPLY FAILED"; exit 2; }
cd /work/pretty/vmc && CARGO_BUILD_JOBS=6 cargo build --offline 2>&1 | grep -E "^error" -A 8
cd /work/pretty
export VMC_VERIF_ROOT=/work/pretty/out-mut VMC_REPO_ROOT=/work/pretty/repo RAYON_NUM_THREADS=6
mkdir -p out-mut; cp out/known_findings.jsonl out-mut/ 2>/dev/null
./target/debug/vmc check "$2" "${3:-quick}" 2>&1 | cut -c1-330 | grep -E "VIOLATION|KNOWN|PASS|FAIL|MACHINERY|machinery" 
echo "exit=${PIPESTATUS[0]}"
git -C /work/pretty/repo checkout -- .

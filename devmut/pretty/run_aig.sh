#!/bin/bash
# usage: run_aig.sh <diff> [tier]   (the aig compile repair stays applied; the mutation is applied on top and reversed afterwards)
set -u
cd /work/pretty/repo || exit 2
git apply "$1" || { echo "APPLY FAILED"; exit 2; }
cd /work/pretty
export VMC_VERIF_ROOT=/work/pretty/out-mut VMC_REPO_ROOT=/work/pretty/repo RAYON_NUM_THREADS=6 CARGO_BUILD_JOBS=6
mkdir -p out-mut; cp out/known_findings.jsonl out-mut/ 2>/dev/null
./target/debug/vmc-aig check C21 "${2:-quick}" 2>&1 | cut -c1-400 | grep -E "VIOLATION|KNOWN|PASS|FAIL|MACHINERY"
echo "exit=${PIPESTATUS[0]}"
cd /work/pretty/repo && git apply -R "$1"

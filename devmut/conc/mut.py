#!/usr/bin/env python3
"""Applies one mutation to the worktree /work/conc/repo: mut.py M1|M2|M3|M4 ; revert with git checkout -- ."""
import sys
R='/work/conc/repo/'
def sub(path, old, new):
    s=open(R+path).read()
    assert old in s, (path, old)
    open(R+path,'w').write(s.replace(old,new,1))
m=sys.argv[1]
if m=='M1':   # the .build lock is not taken by the CLI
    sub('crates/veryl/src/main.rs',
        '''            let dot_build_lock = veryl_path::lock_dir(&dot_build)?;
            (metadata, Some(dot_build_lock))''',
        '''            let _ = &dot_build;
            (metadata, None)''')
elif m=='M2': # dependencies lock taken after the existence test
    sub('crates/metadata/src/lockfile.rs',
        '''                    let lock = veryl_path::lock_dir("dependencies")?;
                    if !path.exists() {
                        let git = self.git_clone(&x.url, &path)?;''',
        '''                    let exists = path.exists();
                    let lock = veryl_path::lock_dir("dependencies")?;
                    if !exists {
                        let git = self.git_clone(&x.url, &path)?;''')
elif m=='M3': # Veryl.lock written in place
    sub('crates/metadata/src/lockfile.rs',
        '''        veryl_path::atomic_write(path, text.as_bytes())
            .map_err(|x| MetadataError::file_io(x, path))?;''',
        '''        fs::write(path, text.as_bytes()).map_err(|x| MetadataError::file_io(x, path))?;''')
elif m=='M4': # Store::try_open waits for the lock
    sub('crates/cache/src/lib.rs',
        '''        Self::open_with_lock(root, global_key, false)''',
        '''        Self::open_with_lock(root, global_key, true)''')
elif m=='M5': # cache manifest written in place
    sub('crates/cache/src/lib.rs',
        '''        if let Err(x) = veryl_path::atomic_write(self.root.join(MANIFEST), manifest.as_bytes()) {''',
        '''        if let Err(x) = fs::write(self.root.join(MANIFEST), manifest.as_bytes()) {''')
else:
    sys.exit('unknown mutation')

#!/usr/bin/env python3
"""Applies env-switched mutations to the worktree /work/ls/repo (one build, many mutants).
Each mutant is active only when the named env var is set in the veryl-ls process
(the harness forwards VERYL_VERIF_MUT* to the child). Revert with `git checkout -- .`."""
import sys
root = sys.argv[1] if len(sys.argv) > 1 else '/work/ls/repo'
def patch(path, old, new):
    p = f'{root}/{path}'
    s = open(p).read()
    assert s.count(old) == 1, (path, s.count(old), old[:60])
    open(p, 'w').write(s.replace(old, new, 1))

# M1: symbol_table::drop does not remove the dropped file's reference tokens from other files' symbols
patch('crates/analyzer/src/symbol_table.rs',
'''        for tokens in self.reference_table.values_mut() {
            tokens.retain(|x| !is_drop_token(x, file_path, prj));
        }
''',
'''        if std::env::var_os("VERYL_VERIF_MUT1").is_none() {
            for tokens in self.reference_table.values_mut() {
                tokens.retain(|x| !is_drop_token(x, file_path, prj));
            }
        }
''')
# M3: definition_table::drop omitted
patch('crates/analyzer/src/analyzer.rs',
'''        definition_table::drop(path, prj);
    }
''',
'''        if std::env::var_os("VERYL_VERIF_MUT3").is_none() {
            definition_table::drop(path, prj);
        }
    }
''')
# M5: scope::drop_tokens omitted
patch('crates/analyzer/src/analyzer.rs',
'''        scope::drop_tokens(path, prj);
''',
'''        if std::env::var_os("VERYL_VERIF_MUT5").is_none() {
            scope::drop_tokens(path, prj);
        }
''')
# M2: drop_file after Parser::parse (erases the freshly registered text); M4: no drop at all
patch('crates/languageserver/src/server.rs',
'''                if let Some(path_id) = resource_table::get_path_id(path.to_path_buf()) {
                    Analyzer::drop_file(path_id, Some(prj.into()));
                }
                let diag = match Parser::parse(text, &path) {
''',
'''                let mut2 = std::env::var_os("VERYL_VERIF_MUT2").is_some();
                let mut4 = std::env::var_os("VERYL_VERIF_MUT4").is_some();
                if !mut2 && !mut4 {
                    if let Some(path_id) = resource_table::get_path_id(path.to_path_buf()) {
                        Analyzer::drop_file(path_id, Some(prj.into()));
                    }
                }
                let parsed = Parser::parse(text, &path);
                if mut2 {
                    if let Some(path_id) = resource_table::get_path_id(path.to_path_buf()) {
                        Analyzer::drop_file(path_id, Some(prj.into()));
                    }
                }
                let diag = match parsed {
''')
# M6: background analysis no longer skips files that are open in the editor
patch('crates/languageserver/src/server.rs',
'''        if self.document_map.contains_key(&src) {
            return;
        }
''',
'''        if self.document_map.contains_key(&src) && std::env::var_os("VERYL_VERIF_MUT6").is_none() {
            return;
        }
''')
# M7: LS fragment cache restores an entry although the file content changed
patch('crates/languageserver/src/incremental.rs',
'''        if !entry.is_some_and(|x| x.hash == hash && x.fragment.is_some()) {
''',
'''        let mut7 = std::env::var_os("VERYL_VERIF_MUT7").is_some();
        if !entry.is_some_and(|x| (x.hash == hash || mut7) && x.fragment.is_some()) {
''')
print("mutations applied")
